"""Driver shared by every property check.

A property module (pbt/props/cNN.py) provides

    ID, LEVEL, RULE, ASSUMPTIONS, BUDGET{tier: {...}}
    strategy(tier)            -> Hypothesis strategy of JSON-able case descriptions
    check(case, obs)          -> runs the code under test + oracle, records into obs
    exhaustive_jobs(tier)     -> optional list of picklable jobs (finite enumerations)
    run_job(job)              -> optional; returns a JobResult-like dict
    known_match(entry, case, tag, msg) -> optional predicate for open known findings

Cases are data; the shrunk failing case is the replay file.  See DESIGN.md section 2.
"""
from __future__ import print_function

import argparse
import collections
import hashlib
import importlib
import json
import multiprocessing
import os
import shutil
import sys
import tempfile
import time
import traceback
import warnings

SCHEMA_LEVELS = ('exploration', 'fault_enumeration', 'model_checking', 'proof',
                 'translation_validation', 'other')

_WORKDIR = None  # per-process scratch dir (set by worker_init)


def workdir():
    """Per-process scratch directory (under the run's base dir, removed by the parent)."""
    global _WORKDIR
    if _WORKDIR is None:
        base = os.environ.get('VERIF_RUN_TMP') or tempfile.mkdtemp(prefix='verif-')
        _WORKDIR = os.path.join(base, 'p%d' % os.getpid())
        os.makedirs(_WORKDIR, exist_ok=True)
    return _WORKDIR


def canon(case):
    return json.dumps(case, sort_keys=True, separators=(',', ':'), default=_json_default)


def _json_default(o):
    try:
        import numpy as np
        if isinstance(o, np.integer):
            return int(o)
        if isinstance(o, np.floating):
            return float(o)
        if isinstance(o, np.bool_):
            return bool(o)
        if isinstance(o, np.ndarray):
            return o.tolist()
    except Exception:
        pass
    if isinstance(o, (set, frozenset)):
        return sorted(o)
    if isinstance(o, bytes):
        return o.decode('latin-1')
    return repr(o)


def digest(case):
    return hashlib.blake2b(canon(case).encode('utf-8', 'surrogatepass'),
                           digest_size=8).digest()


class Obs(object):
    """What one evaluation of check() observed."""

    def __init__(self):
        self.failures = []          # [(tag, msg)]
        self.labels = set()
        self.claims = collections.Counter()
        self.nontrivial = False
        self.excluded = collections.Counter()   # e.g. ambiguous sub-cases skipped, by reason

    def claim(self, tag, ok, msg=''):
        """Record that sub-claim `tag` was evaluated; a false `ok` is a failure."""
        self.claims[tag] += 1
        if not ok:
            if callable(msg):
                msg = msg()
            self.failures.append((tag, str(msg)[:2000]))
        return ok

    def fail(self, tag, msg=''):
        self.claims[tag] += 1
        self.failures.append((tag, str(msg)[:2000]))

    def label(self, *labels):
        for l in labels:
            self.labels.add(l)

    def exclude(self, reason, n=1):
        self.excluded[reason] += n


def run_check(mod, case):
    """check() with every escaping exception turned into a failure.

    Calls into FlowCal that are *expected* to be able to raise are wrapped by
    the property modules themselves.  Anything that still escapes means either
    that FlowCal returned something the oracle could not even inspect, or that
    FlowCal raised where the module did not expect it; both are reported under
    the tag `crash` together with the innermost frame.
    """
    obs = Obs()
    try:
        with warnings.catch_warnings():
            warnings.simplefilter('ignore')
            mod.check(case, obs)
    except Exception as e:  # noqa
        tb = traceback.extract_tb(sys.exc_info()[2])
        where = '%s:%d' % (os.path.basename(tb[-1].filename), tb[-1].lineno) if tb else '?'
        obs.failures.append(('crash', '%s: %s at %s\n%s' % (
            type(e).__name__, e, where, ''.join(traceback.format_exc()[-1500:]))))
        obs.claims['crash'] += 1
    return obs


# --------------------------------------------------------------------------------------
# known findings
# --------------------------------------------------------------------------------------

def load_known(here, pid):
    path = os.path.join(here, 'known_findings.json')
    if not os.path.exists(path):
        return [], []
    with open(path) as f:
        kf = json.load(f)
    opens = [e for e in kf.get('open', []) if e.get('property') == pid]
    fixed = [e for e in kf.get('fixed', []) if e.get('property') == pid]
    return opens, fixed


def matches_known(mod, opens, case, tag, msg):
    for e in opens:
        if e.get('tag') != tag and tag not in e.get('tags', []):
            continue
        fn = getattr(mod, 'known_match', None)
        if fn is None:
            continue   # an open finding without a case predicate suppresses nothing
        try:
            if fn(e, case, tag, msg):
                return e['id']
        except Exception:
            continue
    return None


# --------------------------------------------------------------------------------------
# Hypothesis shard (collect pass and shrink pass)
# --------------------------------------------------------------------------------------

def shard_seed(verif_seed, pid, shard):
    h = hashlib.sha256(('%d:%s:%d' % (verif_seed, pid, shard)).encode()).digest()
    return int.from_bytes(h[:8], 'big') % (2 ** 63)


def _hyp_settings(n, shrink):
    from hypothesis import settings, Phase, HealthCheck
    phases = [Phase.generate, Phase.shrink] if shrink else [Phase.generate]
    return settings(max_examples=n, database=None, deadline=None, derandomize=False,
                    report_multiple_bugs=False, suppress_health_check=list(HealthCheck),
                    phases=phases, print_blob=False)


def worker_init(run_tmp, repo):
    global _WORKDIR
    _WORKDIR = None          # never share the parent's scratch dir: files are rewritten per case
    os.environ['VERIF_RUN_TMP'] = run_tmp
    warnings.simplefilter('ignore')


def run_shard(args):
    """Collect pass: generate every example, record (not raise) failures."""
    (pid, tier, shard, seed, n, budget_s, here) = args
    import hypothesis
    from hypothesis import given
    mod = importlib.import_module('pbt.props.' + pid.lower())
    opens, _ = load_known(here, pid)
    t0 = time.time()
    res = dict(shard=shard, seed=seed, evaluations=0, skipped_budget=0, hashes=set(),
               labels=collections.Counter(), claims=collections.Counter(),
               excluded=collections.Counter(), excluded_known=collections.Counter(),
               failures={}, samples=[], error=None, invalid=0)
    strat = mod.strategy(tier)
    idx = [0]

    # Hypothesis starts every run with the all-minimal example.  With an expensive property a shard only gets a
    # few examples, and 16 shards would spend 16 of them on that one trivial case: skip it there (ask for one more).
    skip_first = n < 20
    res['skipped_minimal'] = 0

    @hypothesis.seed(seed)
    @_hyp_settings(n + (1 if skip_first else 0), shrink=False)
    @given(strat)
    def collect(case):
        i = idx[0]
        idx[0] += 1
        if skip_first and i == 0:
            res['skipped_minimal'] += 1
            return
        if time.time() - t0 > budget_s:
            res['skipped_budget'] += 1
            return
        obs = run_check(mod, case)
        res['evaluations'] += 1
        res['labels'].update(obs.labels)
        res['claims'].update(obs.claims)
        res['excluded'].update(obs.excluded)
        if obs.nontrivial:
            res['hashes'].add(digest(case))
            if len(res['samples']) < 3:
                res['samples'].append(case)
        for tag, msg in obs.failures:
            kid = matches_known(mod, opens, case, tag, msg)
            if kid is not None:
                res['excluded_known'][kid] += 1
                continue
            f = res['failures'].setdefault(tag, dict(count=0, first_index=i, first_case=case,
                                                     first_msg=msg, shard=shard, seed=seed))
            f['count'] += 1

    try:
        collect()
    except Exception as e:  # strategy / hypothesis errors are harness errors
        res['error'] = '%s: %s\n%s' % (type(e).__name__, e, traceback.format_exc()[-3000:])
    res['wall_s'] = time.time() - t0
    return res


class _Hit(Exception):
    pass


def run_shrink(args):
    """Shrink pass: same seed, raise only for `tag`; the last failing case is minimal."""
    (pid, tier, shard, seed, n, tag, cap_s, here) = args
    import hypothesis
    from hypothesis import given
    mod = importlib.import_module('pbt.props.' + pid.lower())
    opens, _ = load_known(here, pid)
    strat = mod.strategy(tier)
    t0 = time.time()
    best = {}

    skip_first = n < 20
    first = [True]

    @hypothesis.seed(seed)
    @_hyp_settings(n + (1 if skip_first else 0), shrink=True)
    @given(strat)
    def shrink(case):
        if first[0]:
            first[0] = False
            if skip_first:
                return
        if time.time() - t0 > cap_s:
            return      # budget exhausted: stop shrinking (Hypothesis may then say "flaky")
        obs = run_check(mod, case)
        for t, msg in obs.failures:
            if t == tag and matches_known(mod, opens, case, t, msg) is None:
                size = len(canon(case))
                if 'size' not in best or size <= best['size']:
                    best.update(size=size, case=case, msg=msg)
                raise _Hit(tag)

    try:
        shrink()
    except BaseException:
        pass
    return best.get('case'), best.get('msg')


def run_job(args):
    (pid, job, here) = args
    mod = importlib.import_module('pbt.props.' + pid.lower())
    t0 = time.time()
    try:
        with warnings.catch_warnings():
            warnings.simplefilter('ignore')
            r = mod.run_job(job)
        r.setdefault('error', None)
    except Exception as e:
        r = dict(error='%s: %s\n%s' % (type(e).__name__, e, traceback.format_exc()[-3000:]))
    r['wall_s'] = time.time() - t0
    return r


# --------------------------------------------------------------------------------------
# main
# --------------------------------------------------------------------------------------

def _repo_state(repo):
    import subprocess
    try:
        head = subprocess.check_output(['git', '-C', repo, 'rev-parse', 'HEAD'],
                                       stderr=subprocess.DEVNULL).decode().strip()
        dirty = bool(subprocess.check_output(['git', '-C', repo, 'status', '--porcelain',
                                              '--untracked-files=no'],
                                             stderr=subprocess.DEVNULL).decode().strip())
        return head, dirty
    except Exception:
        return None, None


def save_replay(here, pid, tag, case, msg, seed, shrunk, origin):
    d = os.path.join(os.environ.get('VERIF_REPLAY_DIR') or os.path.join(here, 'replays'), pid)
    os.makedirs(d, exist_ok=True)
    name = '%s-%s.json' % (''.join(c if c.isalnum() or c in '-_' else '_' for c in tag)[:60],
                           hashlib.sha1(canon(case).encode('utf-8', 'surrogatepass')).hexdigest()[:10])
    path = os.path.join(d, name)
    with open(path, 'w') as f:
        json.dump(dict(property=pid, tag=tag, msg=msg, seed=seed, shrunk=shrunk, origin=origin,
                       case=case), f, indent=1, sort_keys=True, default=_json_default)
    return path


def load_case(path):
    with open(path) as f:
        d = json.load(f)
    return d['case'] if isinstance(d, dict) and 'case' in d and 'property' in d else d


def main(argv, here, repo):
    ap = argparse.ArgumentParser(prog='check')
    ap.add_argument('pid')
    ap.add_argument('--tier', default=os.environ.get('VERIF_TIER') or 'quick',
                    choices=['quick', 'thorough'])
    ap.add_argument('--seed', type=int, default=None)
    ap.add_argument('--replay', default=None)
    ap.add_argument('--procs', type=int, default=int(os.environ.get('VERIF_PROCS', '16')))
    ap.add_argument('--scale', type=float, default=float(os.environ.get('VERIF_SCALE', '1')),
                    help='multiply example counts (for experiments)')
    a = ap.parse_args(argv)
    pid = a.pid.upper()
    seed = a.seed if a.seed is not None else int(os.environ.get('VERIF_SEED', '1') or 1)
    t_start = time.time()

    try:
        import hypothesis  # noqa
        import FlowCal
        mod = importlib.import_module('pbt.props.' + pid.lower())
    except Exception as e:
        sys.stderr.write('HARNESS-ERROR: import failed: %s\n%s\n' % (e, traceback.format_exc()))
        return 2
    fc_path = os.path.realpath(os.path.dirname(FlowCal.__file__))
    if not fc_path.startswith(os.path.realpath(repo)):
        sys.stderr.write('HARNESS-ERROR: FlowCal imported from %s, not from %s\n' % (fc_path, repo))
        return 2

    run_tmp = tempfile.mkdtemp(prefix='verif-%s-' % pid)
    os.environ['VERIF_RUN_TMP'] = run_tmp
    try:
        if a.replay:
            return _replay(mod, pid, a.replay, here)
        return _run(mod, pid, a.tier, seed, a.procs, a.scale, here, repo, run_tmp, t_start)
    except Exception as e:
        sys.stderr.write('HARNESS-ERROR: %s: %s\n%s\n' % (type(e).__name__, e, traceback.format_exc()[-2000:]))
        return 2
    finally:
        shutil.rmtree(run_tmp, ignore_errors=True)


def _replay(mod, pid, path, here):
    case = load_case(path)
    obs = run_check(mod, case)
    opens, _ = load_known(here, pid)
    bad = 0
    for tag, msg in obs.failures:
        kid = matches_known(mod, opens, case, tag, msg)
        if kid:
            print('KNOWN-FINDING: property=%s %s (replayed case matches %s)' % (pid, tag, kid))
            continue
        bad += 1
        print('FAIL tag=%s %s' % (tag, msg))
    if bad:
        print('VIOLATION property=%s replay=%s' % (pid, path))
        return 1
    print('replay ok: %d sub-claims evaluated, none failed' % sum(obs.claims.values()))
    return 0


def _run(mod, pid, tier, seed, procs, scale, here, repo, run_tmp, t_start):
    budget = dict(mod.BUDGET[tier])
    n_total = max(1, int(budget.get('examples', 0) * scale))
    shards = min(procs, budget.get('shards', procs), n_total) if n_total else 0
    time_s = budget.get('time_s', 600)
    opens, fixed = load_known(here, pid)
    violations = []     # (tag, path)
    harness_errors = []
    known_lines = []

    # 1. regression cases of fixed defects: plain replay, no library involved
    reg_dir = os.path.join(here, 'regressions', pid)
    n_reg = 0
    reg_claims = collections.Counter()
    if os.path.isdir(reg_dir):
        for fn in sorted(os.listdir(reg_dir)):
            if not fn.endswith('.json'):
                continue
            path = os.path.join(reg_dir, fn)
            obs = run_check(mod, load_case(path))
            n_reg += 1
            reg_claims.update(obs.claims)
            bad = [(t, m) for t, m in obs.failures
                   if matches_known(mod, opens, load_case(path), t, m) is None]
            if bad:
                print('REGRESSION %s: %s' % (fn, '; '.join('%s: %s' % b for b in bad)[:600]))
                violations.append((bad[0][0], os.path.relpath(path, here)))

    # 2. open known findings: replay the witness, say so
    for e in opens:
        w = e.get('witness')
        still = None
        if w is not None:
            obs = run_check(mod, w)
            still = any(matches_known(mod, [e], w, t, m) for t, m in obs.failures)
        if still is False:
            print('NOTE: witness of %s no longer fails (finding may be repaired)' % e['id'])
        else:
            line = 'KNOWN-FINDING: property=%s %s: %s' % (pid, e['id'], e['summary'])
            known_lines.append(line)
            print(line)

    ctx = multiprocessing.get_context('fork')
    pool = ctx.Pool(procs, initializer=worker_init, initargs=(run_tmp, repo))
    merged = dict(evaluations=0, skipped_budget=0, hashes=set(), labels=collections.Counter(),
                  claims=collections.Counter(), excluded=collections.Counter(),
                  excluded_known=collections.Counter(), samples=[], failures={})
    exhaustive_info = None
    fuzz_info = None
    try:
        # 3. finite enumerations
        jobs = mod.exhaustive_jobs(tier) if hasattr(mod, 'exhaustive_jobs') else []
        job_async = pool.map_async(run_job, [(pid, j, here) for j in jobs], chunksize=1) if jobs else None

        # 4. generated search, collect pass
        per = [n_total // shards + (1 if i < n_total % shards else 0) for i in range(shards)] if shards else []
        sargs = [(pid, tier, i, shard_seed(seed, pid, i), per[i], time_s, here) for i in range(shards)]
        shard_async = pool.map_async(run_shard, sargs, chunksize=1) if shards else None

        if job_async is not None:
            ex = dict(evaluations=0, nontrivial=0, jobs=len(jobs), complete=True)
            for r in job_async.get(timeout=time_s * 3 + 900):
                if r.get('error'):
                    harness_errors.append('job: ' + r['error'])
                    ex['complete'] = False
                    continue
                ex['evaluations'] += r['evaluations']
                ex['nontrivial'] += r['nontrivial']
                merged['labels'].update(r.get('labels', {}))
                merged['claims'].update(r.get('claims', {}))
                merged['excluded'].update(r.get('excluded', {}))
                if not r.get('complete', True):
                    ex['complete'] = False
                for s in r.get('samples', []):
                    if len(merged['samples']) < 3:
                        merged['samples'].append(s)
                for tag, msg, case in r.get('failures', []):
                    kid = matches_known(mod, opens, case, tag, msg)
                    if kid is not None:
                        merged['excluded_known'][kid] += 1
                        continue
                    f = merged['failures'].setdefault(tag, dict(count=0, first_index=-1, first_case=case,
                                                                first_msg=msg, shard=None, seed=None,
                                                                exhaustive=True))
                    f['count'] += 1
            exhaustive_info = ex

        shard_results = shard_async.get(timeout=time_s * 3 + 900) if shard_async is not None else []
        for r in shard_results:
            if r['error']:
                harness_errors.append('shard %d: %s' % (r['shard'], r['error']))
            merged['evaluations'] += r['evaluations']
            merged['skipped_budget'] += r['skipped_budget']
            merged['hashes'] |= r['hashes']
            for k in ('labels', 'claims', 'excluded', 'excluded_known'):
                merged[k].update(r[k])
            for s in r['samples']:
                if len(merged['samples']) < 6:
                    merged['samples'].append(s)
            for tag, f in r['failures'].items():
                g = merged['failures'].get(tag)
                if g is None or g.get('exhaustive') or (f['first_index'], f['shard']) < (g['first_index'], g['shard']):
                    f = dict(f)
                    f['count'] += g['count'] if g else 0
                    merged['failures'][tag] = f
                else:
                    g['count'] += f['count']

        # 4b. coverage-guided engine (atheris/libFuzzer over the same strategy and oracle), when budgeted
        fz = budget.get('fuzz')
        if fz:
            from pbt import fuzz as _fuzz
            if not _fuzz.available(here):
                fuzz_info = dict(skipped='atheris is not importable (setup.sh could not install it)')
            else:
                nw = max(1, min(procs, fz.get('workers', 4)))
                runs = max(100, int(fz.get('runs', 2000) * scale))
                fprocs = _fuzz.launch(pid, tier, seed, nw, runs, fz.get('max_s', 300), here, repo, run_tmp)
                fres, fnotes = _fuzz.collect(fprocs, fz.get('max_s', 300))
                fuzz_info = dict(workers=nw, runs_per_worker=runs, execs=0, evaluations=0, new_units=0,
                                 completed_workers=0, notes=fnotes[:5])
                for r in fres:
                    fuzz_info['execs'] += r.get('execs', 0)
                    fuzz_info['evaluations'] += r['evaluations']
                    fuzz_info['completed_workers'] += 1 if r.get('done') else 0
                    try:
                        fuzz_info['new_units'] += int(r.get('libfuzzer', {}).get('new_units_added', 0))
                    except ValueError:
                        pass
                    merged['evaluations'] += r['evaluations']
                    merged['hashes'] |= set(r['hashes'])
                    for k in ('labels', 'claims', 'excluded', 'excluded_known'):
                        merged[k].update(r[k])
                    for s_ in r['samples']:
                        if len(merged['samples']) < 6:
                            merged['samples'].append(s_)
                    for tag, f in r['failures'].items():
                        g = merged['failures'].get(tag)
                        if g is None:
                            merged['failures'][tag] = dict(count=f['count'], first_index=-1, first_case=f['first_case'],
                                                           first_msg=f['first_msg'], shard=None, seed=None,
                                                           fuzz=r['outdir'])
                        else:
                            g['count'] += f['count']
                for n_ in fnotes[:5]:
                    sys.stderr.write('FUZZ-NOTE: %s\n' % n_[:400])

        # 5. shrink pass for unlisted failures
        tags = sorted(merged['failures'], key=lambda t: (t == 'crash', t))[:6]
        shrink_jobs = []
        do_shrink = budget.get('shrink', True)
        cap = budget.get('shrink_cap_s', 45)
        for tag in tags:
            f = merged['failures'][tag]
            if do_shrink and not f.get('exhaustive') and f['shard'] is not None:
                shrink_jobs.append((tag, pool.apply_async(run_shrink, ((pid, tier, f['shard'], f['seed'],
                                                                         per[f['shard']], tag, cap, here),))))
            elif do_shrink and f.get('fuzz'):
                from pbt import fuzz as _fuzz
                shrink_jobs.append((tag, pool.apply_async(_fuzz.shrink_from_db, (pid, tier, tag, here, f['fuzz'], cap))))
        shrunk = {}
        for tag, asy in shrink_jobs:
            try:
                case, msg = asy.get(timeout=cap * 4 + 120)
                if case is not None:
                    shrunk[tag] = (case, msg)
            except Exception:
                pass
        for tag in tags:
            f = merged['failures'][tag]
            if tag in shrunk:
                case, msg, was = shrunk[tag][0], shrunk[tag][1], True
            else:
                case, msg, was = f['first_case'], f['first_msg'], False
            path = save_replay(here, pid, tag, case, msg, seed, was,
                               dict(shard=f.get('shard'), index=f.get('first_index'), tier=tier,
                                    count=f['count'], engine='atheris' if f.get('fuzz') else
                                    ('enumeration' if f.get('exhaustive') else 'hypothesis')))
            violations.append((tag, os.path.relpath(path, here)))
            print('FAIL tag=%s count=%d: %s' % (tag, f['count'], (msg or '').splitlines()[0][:300] if msg else ''))
    finally:
        pool.terminate()
        pool.join()

    # 6. evidence
    evaluations = merged['evaluations'] + (exhaustive_info['evaluations'] if exhaustive_info else 0) + n_reg
    distinct = len(merged['hashes']) + (exhaustive_info['nontrivial'] if exhaustive_info else 0)
    head, dirty = _repo_state(repo)
    claims = collections.Counter(merged['claims'])
    claims.update(reg_claims)
    coverage = dict(
        evaluations=int(evaluations),
        distinct_nontrivial=int(distinct),
        rule=mod.RULE,
        samples=_trim(merged['samples'][:3]) or ['(no non-trivial case generated)'],
        exhaustive=bool(exhaustive_info and exhaustive_info['complete'] and not shards),
        generated=dict(evaluations=merged['evaluations'], distinct_nontrivial=len(merged['hashes']),
                       shards=shards, skipped_budget=merged['skipped_budget']),
        enumerated=exhaustive_info,
        regression_cases_replayed=n_reg,
        classes=dict(sorted(merged['labels'].items())),
        subclaims=dict(sorted(claims.items())),
        subclaims_failed={t: f['count'] for t, f in merged['failures'].items()},
        excluded=dict(merged['excluded']),
        excluded_known=dict(merged['excluded_known']),
        known_findings=known_lines,
        engines=list(getattr(mod, 'ENGINES', ['hypothesis'])) + (
            ['atheris/libFuzzer driving the same Hypothesis strategy and oracle (fuzz_one_input)']
            if fuzz_info and not fuzz_info.get('skipped') else []),
        repo_head=head, repo_dirty=dirty,
    )
    if fuzz_info is not None:
        coverage['fuzz'] = fuzz_info
    if hasattr(mod, 'evidence_extra'):
        try:
            coverage.update(mod.evidence_extra(tier))
        except Exception:
            pass
    ev = dict(property_id=pid, tier=tier, seed=int(seed), level=mod.LEVEL, coverage=coverage,
              assumptions=list(mod.ASSUMPTIONS), wall_s=round(time.time() - t_start, 2),
              violations=len(violations))
    evdir = os.environ.get('VERIF_EVIDENCE_DIR') or os.path.join(here, 'evidence')   # redirected by tools/ only
    os.makedirs(evdir, exist_ok=True)
    with open(os.path.join(evdir, pid + '.json'), 'w') as f:
        json.dump(ev, f, indent=1, sort_keys=True, default=_json_default)

    print('%s tier=%s seed=%d evaluations=%d distinct_nontrivial=%d wall=%.1fs skipped_budget=%d' % (
        pid, tier, seed, evaluations, distinct, time.time() - t_start, merged['skipped_budget']))
    if harness_errors:
        for h in harness_errors[:5]:
            sys.stderr.write('HARNESS-ERROR: %s\n' % h)
        if not violations:
            return 2
    if violations:
        seen = set()
        for tag, path in violations:
            if path in seen:
                continue
            seen.add(path)
            print('VIOLATION property=%s replay=%s' % (pid, path))
        return 1
    return 0


def _trim(samples, limit=4000):
    out = []
    for s in samples:
        c = canon(s)
        out.append(s if len(c) <= limit else dict(truncated_json=c[:limit] + '...'))
    return out
