"""Sample factory, public fingerprint, and small helpers shared by the property modules.

Samples are built by writing a file with the independent writer (pbt/fcsgen.py) and loading it through
the real reader, so every FCSData used anywhere has genuinely reader-produced metadata; the *model* side
(expected values and per-channel metadata) is computed from the spec, never read back from the sample.
"""
import os
import struct

import numpy as np
from hypothesis import strategies as st

from pbt import fcsgen
from pbt.runner import workdir


# --------------------------------------------------------------------------------------------------
# calling code under test
# --------------------------------------------------------------------------------------------------

class Raised(object):
    def __init__(self, exc):
        self.exc = exc
        self.name = type(exc).__name__

    def __repr__(self):
        return 'Raised(%s: %s)' % (self.name, str(self.exc)[:200])


def call(fn, *a, **k):
    """Run fn; return its value, or a Raised wrapper for any Exception."""
    try:
        return fn(*a, **k)
    except Exception as e:  # noqa
        return Raised(e)


def raised(x):
    return isinstance(x, Raised)


# --------------------------------------------------------------------------------------------------
# events
# --------------------------------------------------------------------------------------------------

def f32_bits(x):
    return struct.unpack('<I', struct.pack('<f', x))[0]


def f64_bits(x):
    return struct.unpack('<Q', struct.pack('<d', x))[0]


def bits_f32(b):
    return struct.unpack('<f', struct.pack('<I', b))[0]


def bits_f64(b):
    return struct.unpack('<d', struct.pack('<Q', b))[0]


def expand(spec):
    """Return the cell matrix (list of lists of Python numbers) described by a sample spec.

    spec['events'] (explicit) wins; otherwise N rows are drawn from PCG64(data_seed), uniformly in
    [0, vmax_j) for integer data or from a lognormal-ish law for float data, and spec['specials']
    = [[row, col, value], ...] are written on top.  Pure function of the spec.
    """
    if spec.get('events') is not None:
        return [list(r) for r in spec['events']]
    N = spec['n']
    D = len(spec['widths'])
    rng = np.random.Generator(np.random.PCG64(spec.get('data_seed', 0)))
    dt = spec.get('datatype', 'I')
    cols = []
    for j in range(D):
        vmax = spec.get('vmax', [None] * D)[j] or int(spec['ranges'][j])
        if dt == 'I':
            vmax = min(int(vmax), 2 ** spec['widths'][j])
            kind = spec.get('col_kind', ['uniform'] * D)[j] if spec.get('col_kind') else 'uniform'
            vmin = min(int(spec.get('vmin', 0)), vmax - 1)
            if kind == 'small':           # heavy ties
                c = rng.integers(vmin, max(vmin + 1, min(vmax, 7)), size=N)
            elif kind == 'stair':         # few values; the largest of column j is the smallest of column j+1
                c = rng.integers(min(3 * j, vmax - 1), min(3 * j + 4, vmax), size=N) if vmax > 3 * j + 1 else rng.integers(vmin, vmax, size=N)
            elif kind == 'const':
                c = np.full(N, int(rng.integers(vmin, vmax)))
            elif kind == 'ramp':
                c = np.sort(rng.integers(vmin, vmax, size=N))
            else:
                c = rng.integers(vmin, vmax, size=N)
            cols.append([int(x) for x in c])
        else:
            c = np.exp(rng.normal(np.log(max(vmax, 2.0)) / 2.0, 1.0, size=N))
            if spec.get('negatives'):
                c = c - np.exp(rng.normal(1.0, 1.0, size=N))
            if dt == 'F':
                c = c.astype(np.float32).astype(np.float64)
            cols.append([float(x) for x in c])
    m = [[cols[j][i] for j in range(D)] for i in range(N)]
    for r, c, v in spec.get('specials', []):
        if 0 <= r < N and 0 <= c < D:
            m[r][c] = v
    return m


def to_fcs_spec(spec):
    """Translate a sample spec into a writer spec (float cells become bit patterns)."""
    out = dict(spec)
    m = expand(spec)
    dt = spec.get('datatype', 'I')
    if dt == 'F':
        m = [[f32_bits(v) for v in row] for row in m]
    elif dt == 'D':
        m = [[f64_bits(v) for v in row] for row in m]
    out['events'] = m
    return out


def matrix(spec):
    """Expected numeric matrix (numpy, native order) for a sample spec of a *supported* layout."""
    m = expand(spec)
    dt = spec.get('datatype', 'I')
    D = len(spec['widths'])
    if dt == 'I':
        w = max(spec['widths'])
        bits = 8 if w <= 8 else 16 if w <= 16 else 32 if w <= 32 else 64
        return np.array(m, dtype='u%d' % (bits // 8)).reshape((len(m), D))
    if dt == 'F':
        return np.array(m, dtype=np.float32).reshape((len(m), D))
    return np.array(m, dtype=np.float64).reshape((len(m), D))


_counter = [0]


def build(spec, name=None):
    """Write the file for `spec` into the process scratch dir and load it as FCSData."""
    import FlowCal.io
    if name is None:
        _counter[0] += 1
        name = 's%d.fcs' % (_counter[0] % 8)
    path = os.path.join(workdir(), name)
    fcsgen.write(path, to_fcs_spec(spec))
    form = spec.get('path_form')
    if form:
        # the same file through another spelling of its path: relative to the scratch directory's parent, with a
        # doubled separator, or through 'x/../'
        wd = workdir()
        path = {'dslash': wd + os.sep + os.sep + name,
                'dot': os.path.join(wd, '.', name),
                'updown': os.path.join(wd, '..', os.path.basename(wd), name)}[form]
    if spec.get('load_via') == 'handle':
        # loaded from an open binary file object instead of a path (FCSData documents "str or file-like")
        while len(_HANDLES) > 6:
            _HANDLES.pop(0).close()
        fh = open(path, 'rb')
        _HANDLES.append(fh)
        return FlowCal.io.FCSData(fh)
    return FlowCal.io.FCSData(path)


_HANDLES = []


def derived_from_used_parent(spec, lo=1, how='slice'):
    """A sample that is a channel sub-selection of a parent which has already been asked by name.

    Returns (sub_sample, sub_spec): the parent is built with `lo` extra leading channels, every parent channel is
    looked up by name, then columns lo.. are taken with a slice (`how='slice'`) or a position list.  sub_spec describes
    exactly the selected channels, so models computed from it stay valid."""
    D = len(spec['widths'])
    if how in ('perm', 'permname'):
        return _derived_by_permutation(spec, lo, how)
    parent = dict(spec)
    extra_names = ['XP%d-A' % i for i in range(lo)]

    def ext(key, fill):
        v = spec.get(key)
        return ([fill] * lo + list(v)) if v else None
    parent['widths'] = [spec['widths'][0]] * lo + list(spec['widths'])
    parent['ranges'] = [spec['ranges'][0]] * lo + list(spec['ranges'])
    parent['names'] = extra_names + list(spec.get('names') or ['P%d' % (i + 1) for i in range(D)])
    for key, fill in (('pne', '0,0'), ('png', None), ('pnv', None), ('pns', None), ('col_kind', 'uniform'), ('vmax', None)):
        e = ext(key, fill)
        if e is not None:
            parent[key] = e
    if spec.get('events') is not None:
        parent['events'] = [[0] * lo + list(r) for r in spec['events']]
    if spec.get('specials'):
        parent['specials'] = [[r, c + lo, v] for r, c, v in spec['specials']]
    # the extra leading columns shift the pseudo-random stream: fix the cells of the kept columns explicitly
    if spec.get('events') is None:
        cells = expand(spec)
        parent['events'] = [[0] * lo + list(r) for r in cells]
        parent.pop('specials', None)
    d = build(parent)
    for nm in d.channels:
        d[:0, nm]
        d.range(nm)
        d.resolution(nm)
    sub = d[:, lo:] if how == 'slice' else d[:, list(range(lo, lo + D))]
    return sub


def _derived_by_permutation(spec, lo, how):
    """The parent holds the same channels rotated by `lo`; a full-length list (positions, or names for
    'permname') puts them back in the order of `spec`.  Nothing is dropped: only the order changes."""
    D = len(spec['widths'])
    src = [(i + lo) % D for i in range(D)]            # parent column i holds spec column src[i]
    parent = dict(spec)
    names = list(spec.get('names') or ['P%d' % (i + 1) for i in range(D)])
    parent['names'] = [names[j] for j in src]
    for key in ('widths', 'ranges', 'pne', 'png', 'pnv', 'pns', 'col_kind', 'vmax'):
        v = spec.get(key)
        if isinstance(v, (list, tuple)) and len(v) == D:
            parent[key] = [v[j] for j in src]
    cells = spec['events'] if spec.get('events') is not None else expand(spec)
    parent['events'] = [[r[j] for j in src] for r in cells]
    parent.pop('specials', None)
    d = build(parent)
    for nm in d.channels:
        d[:0, nm]
        d.range(nm)
    back = [src.index(j) for j in range(D)]
    return d[:, back] if how == 'perm' else d[:, [names[j] for j in range(D)]]


# --------------------------------------------------------------------------------------------------
# model metadata
# --------------------------------------------------------------------------------------------------

def parse_pne(s):
    if s is None:
        return None
    a = [float(x) for x in s.split(',')]
    if a[0] != 0.0 and a[1] == 0.0:
        a[1] = 1.0
    return tuple(a)


def _flt(x):
    if x is None:
        return None
    try:
        return float(x)
    except ValueError:
        return None


def model_meta(spec):
    """Per-channel metadata records derived from the spec alone."""
    D = len(spec['widths'])
    names = spec.get('names') or ['P%d' % (i + 1) for i in range(D)]
    pne = spec.get('pne') or ['0,0'] * D
    out = []
    for j in range(D):
        R = float(spec['ranges'][j])
        out.append(dict(name=names[j], range=[0.0, R - 1], resolution=int(R),
                        at=parse_pne(pne[j]),
                        gain=_flt((spec.get('png') or [None] * D)[j]),
                        voltage=_flt((spec.get('pnv') or [None] * D)[j]),
                        label=(spec.get('pns') or [None] * D)[j]))
    return out


def meta_of(d):
    """Per-channel metadata records as reported by the public accessors of a sample."""
    return [dict(name=n, range=list(r) if r is not None else None, resolution=rs, at=a, gain=g, voltage=v,
                 label=l)
            for n, r, rs, a, g, v, l in zip(d.channels, d.range(), d.resolution(), d.amplification_type(),
                                            d.amplifier_gain(), d.detector_voltage(), d.channel_labels())]


def native(a):
    a = np.asarray(a)
    if a.dtype.byteorder not in ('=', '|'):
        a = a.astype(a.dtype.newbyteorder('='))
    return np.ascontiguousarray(a)


def fingerprint(d, with_infile=True):
    """Everything observable about a sample through its public interface (not __dict__)."""
    a = native(d.view(np.ndarray) if isinstance(d, np.ndarray) else d)
    fp = dict(shape=tuple(a.shape), kind=a.dtype.kind, itemsize=a.dtype.itemsize, data=a.tobytes())
    if not hasattr(d, 'channels'):
        return fp
    fp.update(channels=tuple(d.channels), text=dict(d.text), analysis=dict(d.analysis),
              data_type=d.data_type, time_step=d.time_step,
              start=d.acquisition_start_time, end=d.acquisition_end_time,
              at=list(d.amplification_type()), voltage=list(d.detector_voltage()),
              gain=list(d.amplifier_gain()), labels=list(d.channel_labels()),
              range=[list(r) if r is not None else None for r in d.range()],
              resolution=list(d.resolution()))
    if with_infile:
        fp['infile'] = str(d.infile)
    return fp


def fp_diff(a, b):
    """Names of fingerprint fields that differ."""
    return sorted(k for k in set(a) | set(b) if not _eq(a.get(k), b.get(k)))


def _eq(x, y):
    try:
        return bool(x == y)
    except Exception:
        return False


# --------------------------------------------------------------------------------------------------
# strategies for sample specs
# --------------------------------------------------------------------------------------------------

NAME_POOL = ['FSC-H', 'SSC-H', 'FL1-H', 'FL2-H', 'FL3-H', 'FL4-A', 'B530', 'Y585', 'Time', 'V450', 'fl1-h', 'Pacific Blue-A',
             'FL1', 'SC-H']          # (names may be contained in other names)


@st.composite
def sample_spec(draw, min_d=1, max_d=6, min_n=0, max_n=40, datatypes=('I', 'I', 'F', 'D'),
                resolutions=(256, 1024, 4096, 65536, 262144), log_amp=True, with_time=False,
                int_widths=(8, 16, 32)):
    """A loadable sample: D channels with distinct metadata, N events from a seed plus specials."""
    D = draw(st.integers(min_d, max_d))
    dt = draw(st.sampled_from(datatypes))
    # (a duplicate-free list of draws rather than st.permutations: the latter is practically never satisfiable from
    # the byte strings of the coverage-guided engine)
    names = draw(st.lists(st.sampled_from([n for n in NAME_POOL if with_time or n != 'Time']), min_size=D, max_size=D, unique=True))
    little = draw(st.booleans())
    if dt == 'I':
        w = draw(st.sampled_from(int_widths))
        widths = [w] * D
        ranges = [min(draw(st.sampled_from(resolutions)), 2 ** w) for _ in range(D)]
    else:
        widths = [32 if dt == 'F' else 64] * D
        ranges = [draw(st.sampled_from(resolutions)) for _ in range(D)]
    pne = []
    for j in range(D):
        if log_amp and draw(st.booleans()):
            a0 = draw(st.sampled_from(['1', '2', '3', '4', '4.5', '5', '8', '2.5', '6', '7']))      # (also more than five decades)
            a1 = draw(st.sampled_from(['0', '1', '0.1', '10', '1.0', '0.1', '0.01']))
            pne.append('%s,%s' % (a0, a1))
        else:
            pne.append('0,0')
    png = [draw(st.sampled_from([None, None, '1', '2.5', '0.5', '16'])) for _ in range(D)]
    pnv = [draw(st.sampled_from([None, '450', '600.5', '250', '0'])) for _ in range(D)]       # a detector may be switched off (0 V)
    pns = [draw(st.sampled_from([None, 'GFP', 'mCherry', 'label %d' % j])) for j in range(D)]
    if D >= 2 and draw(st.sampled_from([True, False, False])):
        # a label is free text: it may well read like the name of another channel (names stay the only names)
        k = draw(st.integers(1, D - 1))
        for j in range(D):
            if draw(st.booleans()):
                pns[j] = names[(j + k) % D]
    n = draw(st.integers(min_n, max_n))
    spec = dict(version=draw(st.sampled_from(['FCS2.0', 'FCS3.0', 'FCS3.1'])), datatype=dt,
                byteord=('1,2,3,4' if little else '4,3,2,1'), widths=widths, ranges=ranges, names=list(names),
                pne=pne, png=png, pnv=pnv, pns=pns, n=n, data_seed=draw(st.integers(0, 2 ** 20)))
    # optional per-parameter keywords may live in the supplemental TEXT segment (FCS3.0 and later)
    moved = draw(st.sampled_from([None, None, None, ['G'], ['V', 'S'], ['G', 'V', 'S']]))
    if moved and spec['version'] != 'FCS2.0':
        spec['in_stext'] = moved
    return spec
