"""Experiment / workbook generator shared by C10, C11 and C15.

A *case* is JSON: instruments, FCS file recipes, bead rows, sample rows.  `materialise(case, dir)` writes the FCS files
with the independent writer and returns the three tables as pandas DataFrames laid out as the Excel UI documents
them (index = ID column).
"""
import os

import numpy as np
import pandas as pd
from hypothesis import strategies as st

from pbt import fcsgen
from pbt.samples import to_fcs_spec

LADDER = [0, 646, 1704, 4827, 15991, 47609, 135896, 273006]
UNITS = ['Channel', 'channel', 'RFI', 'rfi', 'a.u.', 'A.U.', 'au', 'AU', 'MEF', 'mef', 'Mef']


# ----------------------------------------------------------------------------------------------
# FCS file recipes
# ----------------------------------------------------------------------------------------------

def cells_events(rec, nfl):
    rng = np.random.Generator(np.random.PCG64(rec['seed']))
    n, R = rec['n'], int(rec.get('res', 1024))
    k = R / 1024.0
    fsc = rng.normal(500, 70, n) * k
    ssc = rng.normal(400, 60, n) * k
    fl = [rng.normal(300 + 120 * (j % 5), 70, n) * k for j in range(nfl)]
    t = np.sort(rng.integers(0, R, n)).astype(float)
    if rec['datatype'] == 'I':
        # saturated events in scatter and fluorescence channels, inside the part that survives start_end
        idx = 260 + np.arange(12)
        if n > 300:
            fsc[idx[0:2]] = R - 1
            ssc[idx[2:4]] = 0
            for j in range(nfl):
                fl[j][idx[4 + 2 * (j % 3):6 + 2 * (j % 3)]] = R - 1 if j % 2 == 0 else 0
        X = np.column_stack([fsc, ssc] + fl + [t])
        X = np.round(np.clip(X, 0, R - 1)).astype(int)
        return [[int(v) for v in row] for row in X]
    # float files: linear amplifiers; a few non-positive fluorescence values
    for j in range(nfl):
        fl[j] = np.abs(fl[j] * 3.0) + 1.0
        # non-positive values in some channels only (which ones depends on the seed), strictly positive in the others
        if n > 300 and (rec['seed'] >> j) & 1 == 0:
            fl[j][265:270] = [-5.0, 0.0, -0.5, -(20.0 + rec['seed'] % 200), 0.0]     # the most negative event differs from file to file
            if rec.get('tiny_neg'):
                # ... or is tiny compared with the range (the logicle width derived from it is floored at 0)
                fl[j][265:275] = [-0.001, 0.0, -0.0005, 0.0, -0.002, -0.001, -0.0015, 0.0, -0.001, -0.0008]
    fsc = np.clip(fsc, 1, None)
    ssc = np.clip(ssc, 1, None)
    if n > 300 and rec['seed'] % 2 == 1:
        # float files may hold (compensated) negative scatter values; how negative differs from file to file, and
        # with it the logicle parameters derived from each file
        fsc[290:292] = [-(1.0 + rec['seed'] % 97), -0.5]
        ssc[292] = -(2.0 + rec['seed'] % 31)
    if n > 300 and rec['seed'] % 4 == 1:
        # ... and the most negative scatter events may sit among the events that the workflow discards first (the
        # first 250 and the last 100), so that the scale derived from the whole file differs from the gated sample's
        fsc[12] = -(400.0 + rec['seed'] % 53)
        ssc[n - 20] = -(350.0 + rec['seed'] % 41)
    if n > 300 and rec['seed'] % 3 != 0:
        # float data may exceed the declared range: a few scatter events beyond $PnR-1
        fsc[280:283] = [R * 1.4, R * 2.0, R + 5.0]
        ssc[283:285] = [R * 1.1, R * 3.0]
    X = np.column_stack([fsc, ssc] + fl + [t])
    return [[float(np.float32(v)) for v in row] for row in X]


def beads_events(rec, nfl):
    rng = np.random.Generator(np.random.PCG64(rec['seed']))
    npop, R = 8, 1024
    sizes = rng.integers(rec.get('size_lo', 300), rec.get('size_hi', 400), size=npop)
    n = int(sizes.sum())
    pos = np.linspace(170, 880, npop)
    lab = np.repeat(np.arange(npop), sizes)
    cols = [rng.normal(pos[lab] - 25 * j, 5.0) for j in range(nfl)]
    perm = rng.permutation(n)
    fsc = rng.normal(500, 35, n)
    ssc = rng.normal(420, 35, n)
    t = np.sort(rng.integers(0, R, n)).astype(float)
    X = np.column_stack([fsc, ssc] + [c[perm] for c in cols] + [t])
    X = np.round(np.clip(X, 0, R - 1)).astype(int)
    if rec.get('n_keep'):
        X = X[:rec['n_keep']]
    return [[int(v) for v in row] for row in X]


def file_spec(rec, inst):
    """Writer spec for one file recipe on instrument `inst`."""
    fl = inst['fl']
    names = [inst['fsc'], inst['ssc']] + fl + [inst['time']]
    D = len(names)
    if rec['kind'] == 'beads':
        ev = beads_events(rec, len(fl))
        dt = 'I'
    else:
        ev = cells_events(rec, len(fl))
        dt = rec['datatype']
    log = rec.get('amp', 'log') == 'log' and dt == 'I'
    pne = ['0,0', '0,0'] + (['4,1'] * len(fl) if log else ['0,0'] * len(fl)) + ['0,0']
    volt = rec.get('volt') or [500 + 50 * i for i in range(D - 1)]
    pnv = [str(v) for v in volt[:D - 1]] + [None]
    png = [None] * D if dt == 'I' else (['1.0', '1.0'] + ['2.0'] * len(fl) + [None])
    if rec.get('extra_first'):
        # a parameter the instrument sheet does not mention, stored in front of the others: same channel names, other
        # column positions than the rest of the instrument's files
        names = ['AUX-W'] + names
        pne, pnv, png = ['0,0'] + pne, [None] + pnv, [None] + png
        ev = [[(7 * i) % 200 if dt == 'I' else float((7 * i) % 200)] + list(row) for i, row in enumerate(ev)]
        D += 1
    if rec.get('no_volt'):
        pnv = [None] * D                 # a file that records no detector voltages at all
    if rec.get('drop_fl') is not None:
        # a detector that was switched off: the instrument sheet lists the channel, this file does not have it
        j = names.index(fl[rec['drop_fl']])
        names, pne, pnv, png = [[v for i, v in enumerate(l) if i != j] for l in (names, pne, pnv, png)]
        ev = [[v for i, v in enumerate(row) if i != j] for row in ev]
        D -= 1
    return dict(version=rec.get('version', 'FCS3.0'), datatype=dt, byteord='1,2,3,4' if dt == 'F' else '4,3,2,1',
                widths=[{'I': 16, 'F': 32, 'D': 64}[dt]] * D, ranges=[int(rec.get('res', 1024))] * D, names=names, pne=pne, pnv=pnv, png=png,
                events=ev, extra=[['$TIMESTEP', str(rec.get('timestep', '0.1'))], ['$BTIM', '12:00:00'], ['$ETIM', '12:05:00'], ['$DATE', '01-JAN-2020']]
                + [list(kv) for kv in rec.get('extra_kw', [])])


# ----------------------------------------------------------------------------------------------
# tables
# ----------------------------------------------------------------------------------------------

def materialise(case, d):
    insts = {i['id']: i for i in case['instruments']}
    for fname, rec in case['files'].items():
        if rec.get('missing'):
            continue
        fcsgen.write(os.path.join(d, fname), to_fcs_spec(file_spec(rec, insts[rec['instrument']])))
    it = pd.DataFrame([{'ID': i['id'], 'Description': 'instrument %s' % i['id'], 'Forward Scatter Channel': i['fsc'],
                        'Side Scatter Channel': i['ssc'], 'Fluorescence Channels': ', '.join(i['fl']),
                        'Time Channel': i['time']} for i in case['instruments']],
                      columns=['ID', 'Description', 'Forward Scatter Channel', 'Side Scatter Channel',
                               'Fluorescence Channels', 'Time Channel']).set_index('ID')
    all_fl = []
    for i in case['instruments']:
        for c in i['fl']:
            if c not in all_fl:
                all_fl.append(c)
    mef_cols = [c for c in all_fl if any(c in b['mef'] for b in case['beads'])]
    # header spellings: the documented '<channel> Units' / '<channel> MEF Values', or (header_ws) the same words with
    # stray blanks around and between them, which the workflow accepts as well
    ws = bool(case.get('header_ws'))
    uh = lambda c: (('%s Units ' % c) if len(c) % 2 else (' %s  Units' % c)) if ws else '%s Units' % c
    mh = lambda c: ('%s  MEF Values ' % c) if ws else '%s MEF Values' % c
    bt = pd.DataFrame([dict([('ID', b['id']), ('Instrument ID', b['instrument']), ('File Path', b['file'])] +
                            [(mh(c), b['mef'].get(c)) for c in mef_cols] +
                            [('Gate Fraction', b['gate_fraction']), ('Clustering Channels', ', '.join(b['clustering']))])
                       for b in case['beads']],
                      columns=['ID', 'Instrument ID', 'File Path'] + [mh(c) for c in mef_cols] +
                              ['Gate Fraction', 'Clustering Channels']).set_index('ID')
    unit_cols = [c for c in all_fl if any(c in s['units'] for s in case['samples'])]
    stab = pd.DataFrame([dict([('ID', s['id']), ('Instrument ID', s['instrument']), ('Beads ID', s.get('beads')),
                               ('File Path', s['file'])] + [(uh(c), s['units'].get(c)) for c in unit_cols] +
                              [('Gate Fraction', s['gate_fraction']), ('Strain', s.get('strain', 'wt'))])
                         for s in case['samples']],
                        columns=['ID', 'Instrument ID', 'Beads ID', 'File Path'] + [uh(c) for c in unit_cols] +
                                ['Gate Fraction', 'Strain']).set_index('ID')
    for t in (bt, stab):
        for c in t.columns:
            if c.strip().endswith('Units') or c.strip().endswith('Values') or c == 'Beads ID':
                t[c] = t[c].astype(object).where(t[c].notnull(), None)
    return it, bt, stab


def write_input(path, it, bt, stab):
    with pd.ExcelWriter(path, engine='openpyxl') as w:
        it.to_excel(w, sheet_name='Instruments')
        bt.to_excel(w, sheet_name='Beads')
        stab.to_excel(w, sheet_name='Samples')


# ----------------------------------------------------------------------------------------------
# strategies
# ----------------------------------------------------------------------------------------------

@st.composite
def instruments(draw, max_n=3):
    n = draw(st.sampled_from([k for k in (1, 2, 2, 3) if k <= max_n]))
    out = []
    pools = [['FL1-H', 'FL2-H', 'FL3-H'], ['Pacific Blue-A', 'Y585-A', 'PE-Texas Red-A'], ['GFP', 'mCherry', 'BFP']]
    for k in range(n):
        nfl = draw(st.sampled_from([1, 2, 2, 3]))
        out.append(dict(id='I%d' % (k + 1), fsc=['FSC-H', 'FSC-A', 'FS'][k], ssc=['SSC-H', 'SSC-A', 'SS'][k],
                        fl=pools[k][:nfl], time=['Time', 'TIME', 'time'][k]))
    return out


@st.composite
def experiment(draw, max_inst=3, max_beads=2, max_samples=4, min_samples=1, with_float=True):
    insts = draw(instruments(max_inst))
    files = {}
    beads = []
    nb = draw(st.sampled_from([k for k in (1, 1, 2, 0) if k <= max_beads]))
    for k in range(nb):
        inst = draw(st.sampled_from(insts))
        fname = 'beads%d.fcs' % (k + 1)
        files[fname] = dict(kind='beads', instrument=inst['id'], seed=draw(st.integers(0, 2 ** 16)))
        chans = inst['fl']
        mefch = draw(st.lists(st.sampled_from(chans), min_size=1, max_size=min(2, len(chans)), unique=True))
        mef = {}
        for c in mefch:
            vals = [str(v * (k + 1)) for v in LADDER]          # every bead row has its own manufacturer values
            if draw(st.sampled_from([False, False, True])):
                vals[draw(st.integers(1, 6))] = 'None'
            mef[c] = ', '.join(vals)
        ncl = draw(st.sampled_from(list(range(1, len(chans) + 1))))
        beads.append(dict(id='B%d' % (k + 1), instrument=inst['id'], file=fname,
                          gate_fraction=draw(st.sampled_from([0.3, 0.5, 0.85])), clustering=chans[:ncl], mef=mef))
    samples = []
    ns = draw(st.sampled_from([k for k in (2, 3, 4, 1, 2, 3) if min_samples <= k <= max_samples]))
    for k in range(ns):
        with_beads = [i for i in insts if any(b['instrument'] == i['id'] for b in beads)]
        inst = draw(st.sampled_from(with_beads + with_beads + insts))
        dt = draw(st.sampled_from(['I', 'I', 'I', 'F', 'F', 'D'])) if with_float else 'I'      # D: double-precision floats
        fname = 'cells%d.fcs' % (k + 1)
        earlier = [s_['file'] for s_ in samples if s_['instrument'] == inst['id']]
        if earlier and draw(st.sampled_from([False, False, True])):
            fname = draw(st.sampled_from(earlier))           # the same file analysed again (other beads / units / gate)
            dt = files[fname]['datatype']
        else:
            files[fname] = dict(kind='cells', instrument=inst['id'], seed=draw(st.integers(0, 2 ** 16)),
                                n=draw(st.sampled_from([450, 600, 750, 900])), datatype=dt,
                                res=draw(st.sampled_from([1024, 1024, 256, 4096])) if dt == 'I' else 1024,
                                timestep=draw(st.sampled_from(['0.1', '0.1', '0.025', '0'])))      # '0': a duration of 0 s
        mybeads = [b for b in beads if b['instrument'] == inst['id']]
        b = draw(st.sampled_from(mybeads)) if mybeads else None
        units = {}
        for c in inst['fl']:
            kind = draw(st.sampled_from(['none', 'channel', 'rfi', 'au', 'mef', 'mef']))
            if kind == 'mef' and (b is None or c not in b['mef'] or dt != 'I'):
                kind = draw(st.sampled_from(['rfi', 'au', 'channel', 'none']))
            u = None if kind == 'none' else draw(st.sampled_from(dict(channel=['Channel', 'Channel', 'channel'], rfi=['RFI', 'rfi'],
                                                                     au=['a.u.', 'A.U.', 'au', 'AU'], mef=['MEF', 'mef', 'Mef'])[kind]))
            if u is not None and draw(st.sampled_from([False, False, True])):
                u = ' ' + u + '  '
            if u is not None:
                units[c] = u
        samples.append(dict(id='S%d' % (k + 1), instrument=inst['id'], beads=b['id'] if b else None, file=fname,
                            gate_fraction=draw(st.sampled_from([0.2, 0.5, 0.85, 1.0])), units=units,
                            strain=draw(st.sampled_from(['wt', 'mutant', 'strain 3']))))
    return dict(instruments=insts, files=files, beads=beads, samples=samples, np_seed=draw(st.integers(0, 2 ** 20)))
