"""Coverage-guided engine: atheris (libFuzzer) drives the property's own Hypothesis strategy.

    python -m pbt.fuzz worker <PID> <tier> <worker> <seed> <runs> <max_s> <here> <outdir>

Each worker is one libFuzzer process.  The byte string libFuzzer mutates is handed to
`test.hypothesis.fuzz_one_input`, i.e. it is the choice sequence of the *same* strategy the Hypothesis engine
uses, and the test body is the same `check(case, obs)` oracle -- the only thing that changes is who picks the
next input: libFuzzer keeps inputs that reach new branches of the instrumented FlowCal package.

Failures do not stop the campaign (collect-then-shrink, like the Hypothesis shards): the first failing case of
every sub-claim tag is recorded, its choice sequence is saved by Hypothesis in a directory database, and the
parent shrinks it afterwards with `shrink_from_db` (phases reuse+shrink).  Counters are flushed to
<outdir>/result.json every 200 evaluations because libFuzzer leaves through _exit().
"""
from __future__ import print_function

import collections
import importlib
import json
import os
import subprocess
import sys
import time
import warnings


def available(here):
    try:
        sys.path.insert(0, os.path.join(here, '.deps')) if os.path.join(here, '.deps') not in sys.path else None
        import atheris  # noqa
        return True
    except Exception:
        return False


class _Hit(Exception):
    pass


_HIT_TYPES = {}


def _hit(tag):
    # Hypothesis keeps one saved choice sequence per "origin" (exception type + raise site): give every sub-claim
    # tag its own exception type so that the first failure of each tag is kept
    t = _HIT_TYPES.get(tag)
    if t is None:
        t = _HIT_TYPES[tag] = type('_Hit_' + ''.join(c if c.isalnum() else '_' for c in tag), (_Hit,), {})
    return t(tag)


def _make_test(mod, tier, dbdir, on_case):
    """One definition for fuzzing and for shrinking: the database key is derived from this function."""
    import hypothesis
    from hypothesis import given, settings, HealthCheck, Phase
    from hypothesis.database import DirectoryBasedExampleDatabase

    @settings(database=DirectoryBasedExampleDatabase(dbdir), deadline=None, derandomize=False,
              report_multiple_bugs=False, suppress_health_check=list(HealthCheck), print_blob=False,
              max_examples=2000, phases=[Phase.reuse, Phase.shrink])
    @given(mod.strategy(tier))
    def fuzz_target(case):
        on_case(case)
    return fuzz_target


def worker(pid, tier, widx, seed, runs, max_s, here, outdir):
    os.makedirs(outdir, exist_ok=True)
    import atheris
    with atheris.instrument_imports(include=['FlowCal']):
        import FlowCal  # noqa
        import FlowCal.io, FlowCal.transform, FlowCal.gate, FlowCal.stats, FlowCal.mef, FlowCal.plot  # noqa
        import FlowCal.excel_ui  # noqa
    from pbt import runner
    warnings.simplefilter('ignore')
    mod = importlib.import_module('pbt.props.' + pid.lower())
    opens, _ = runner.load_known(here, pid)
    res = dict(worker=widx, seed=seed, evaluations=0, hashes=[], labels=collections.Counter(),
               claims=collections.Counter(), excluded=collections.Counter(), excluded_known=collections.Counter(),
               failures={}, samples=[], done=False, execs=0)
    hashes = set()
    t0 = time.time()
    respath = os.path.join(outdir, 'result.json')

    def flush():
        res['hashes'] = sorted(hashes)
        res['wall_s'] = time.time() - t0
        tmp = respath + '.tmp'
        with open(tmp, 'w') as f:
            json.dump(res, f, default=runner._json_default)
        os.replace(tmp, respath)

    def on_case(case):
        obs = runner.run_check(mod, case)
        res['evaluations'] += 1
        res['labels'].update(obs.labels)
        res['claims'].update(obs.claims)
        res['excluded'].update(obs.excluded)
        if obs.nontrivial:
            hashes.add(runner.digest(case))
            if len(res['samples']) < 2:
                res['samples'].append(case)
        hit = None
        for tag, msg in obs.failures:
            kid = runner.matches_known(mod, opens, case, tag, msg)
            if kid is not None:
                res['excluded_known'][kid] += 1
                continue
            f = res['failures'].setdefault(tag, dict(count=0, first_case=case, first_msg=msg, worker=widx))
            f['count'] += 1
            if f['count'] == 1:
                hit = tag
        if res['evaluations'] % 200 == 0 or hit:
            flush()
        if hit:
            raise _hit(hit)          # makes Hypothesis save the choice sequence in the database

    test = _make_test(mod, tier, os.path.join(outdir, 'db'), on_case)
    fuzz_one = test.hypothesis.fuzz_one_input

    def one(data):
        res['execs'] += 1
        try:
            fuzz_one(data)
        except _Hit:
            pass
        if res['execs'] >= runs:
            res['done'] = True
            flush()

    corpus = os.path.join(outdir, 'corpus')
    os.makedirs(corpus, exist_ok=True)
    # Starting corpus: byte strings of several lengths that are a pure function of the worker seed.  Every byte
    # string is a valid choice sequence for Hypothesis, but a structured case needs hundreds of choices: from an
    # empty corpus libFuzzer only produces inputs that are too short to build a case and never sees new coverage.
    import random
    rnd = random.Random(seed)
    for i, n in enumerate([64, 128, 256, 512, 1024, 2048, 4096, 8192] * 2):
        with open(os.path.join(corpus, 'seed%02d' % i), 'wb') as f:
            f.write(bytes(rnd.getrandbits(8) if rnd.random() < 0.7 else 0 for _ in range(n)))
    flush()
    argv = [sys.argv[0], '-runs=%d' % runs, '-seed=%d' % (seed % (2 ** 31 - 1) + 1), '-max_len=16384',
            '-max_total_time=%d' % max_s, '-print_final_stats=1', '-verbosity=0', '-len_control=0', corpus]
    atheris.Setup(argv, one)
    atheris.Fuzz()


def shrink_from_db(pid, tier, tag, here, outdir, cap_s):
    """Replay the saved choice sequences of one worker and shrink the failure with sub-claim `tag`."""
    from pbt import runner
    mod = importlib.import_module('pbt.props.' + pid.lower())
    opens, _ = runner.load_known(here, pid)
    best = {}
    t0 = time.time()

    def on_case(case):
        if time.time() - t0 > cap_s:
            return
        obs = runner.run_check(mod, case)
        for t, msg in obs.failures:
            if t == tag and runner.matches_known(mod, opens, case, t, msg) is None:
                size = len(runner.canon(case))
                if 'size' not in best or size <= best['size']:
                    best.update(size=size, case=case, msg=msg)
                raise _hit(tag)

    # Hypothesis drops saved sequences that do not fail for *this* tag: work on a private copy of the database
    import shutil
    mydb = os.path.join(outdir, 'db-' + ''.join(c if c.isalnum() else '_' for c in tag))
    shutil.rmtree(mydb, ignore_errors=True)
    shutil.copytree(os.path.join(outdir, 'db'), mydb)
    test = _make_test(mod, tier, mydb, on_case)
    try:
        test()
    except BaseException:
        pass
    return best.get('case'), best.get('msg')


def launch(pid, tier, seed, workers, runs, max_s, here, repo, run_tmp):
    """Start the worker processes; returns [(Popen, outdir)]."""
    procs = []
    env = dict(os.environ)
    env['PYTHONPATH'] = os.pathsep.join([repo, here, os.path.join(here, '.deps')])
    for w in range(workers):
        outdir = os.path.join(run_tmp, 'fuzz-%d' % w)
        os.makedirs(outdir, exist_ok=True)
        wenv = dict(env, VERIF_RUN_TMP=os.path.join(outdir, 'tmp'))
        os.makedirs(wenv['VERIF_RUN_TMP'], exist_ok=True)
        log = open(os.path.join(outdir, 'log.txt'), 'wb')
        p = subprocess.Popen([sys.executable, '-m', 'pbt.fuzz', 'worker', pid, tier, str(w),
                              str(runner_seed(seed, pid, w)), str(runs), str(max_s), here, outdir],
                             cwd=here, env=wenv, stdout=log, stderr=subprocess.STDOUT)
        procs.append((p, outdir, log))
    return procs


def runner_seed(seed, pid, w):
    from pbt import runner
    return runner.shard_seed(seed, pid, 1000 + w) % (2 ** 31 - 2)


def collect(procs, max_s):
    """Wait for the workers; returns (results, notes)."""
    out, notes = [], []
    deadline = time.time() + max_s + 120
    for p, outdir, log in procs:
        try:
            p.wait(timeout=max(1, deadline - time.time()))
        except subprocess.TimeoutExpired:
            p.kill()
            notes.append('worker killed after the wall-clock bound (inconclusive, not a violation)')
        log.close()
        r = None
        try:
            with open(os.path.join(outdir, 'result.json')) as f:
                r = json.load(f)
        except Exception as e:
            notes.append('no result from a worker: %r' % (e,))
        stats = {}
        try:
            txt = open(os.path.join(outdir, 'log.txt'), 'rb').read().decode('utf-8', 'replace')
            for line in txt.splitlines():
                if line.startswith('stat::'):
                    k, _, v = line[6:].partition(':')
                    stats[k.strip()] = v.strip()
            if r is not None and not r.get('done') and p.returncode not in (0, None):
                notes.append('worker exit %r: %s' % (p.returncode, txt[-600:]))
        except Exception:
            pass
        if r is not None:
            r['libfuzzer'] = stats
            r['outdir'] = outdir
            out.append(r)
    return out, notes


if __name__ == '__main__':
    if sys.argv[1] == 'worker':
        a = sys.argv[2:]
        sys.argv = [sys.argv[0]]
        from pbt import fuzz as _f          # one module identity for worker and shrinker (database key)
        _f.worker(a[0], a[1], int(a[2]), int(a[3]), int(a[4]), int(a[5]), a[6], a[7])
