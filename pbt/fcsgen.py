"""Independent FCS writer (HEADER / TEXT / supplemental TEXT / ANALYSIS / DATA encoder).

Written from the FCS 3.1 text, not from FlowCal/io.py: right-justified ASCII offsets in a
58-byte HEADER, TEXT as delimiter-joined pairs with delimiter doubling, DATA packed value
by value with int.to_bytes / bit patterns -- deliberately the slow obvious encoding.

A *spec* is a JSON-able dict (all keys optional except `events`/`widths`):

  version      'FCS2.0' | 'FCS3.0' | 'FCS3.1'
  datatype     'I' | 'F' | 'D' | anything (unsupported arm)
  byteord      '4,3,2,1' | '2,1' | '1,2,3,4' | '1,2' | anything (unsupported arm)
  little       bool -- byte order actually used for packing (derived from byteord if absent)
  widths       [bits per parameter]
  ranges       [$PnR values, ints or strings]
  events       [[cell, ...], ...]   ints for 'I'; for 'F'/'D' ints holding the IEEE bit pattern
  names        [$PnN]
  pne/png/pnv/pns   per-parameter lists (None entries = keyword absent)
  delim        one character
  offsets_in   'header' | 'text'   (where the DATA offsets are given; 'text' => zeros in HEADER)
  end_plus_one bool                (declared end = one past the last byte)
  pad          [before TEXT, TEXT..next, after DATA]  byte counts
  pad_seed     int                 (padding bytes are a pure function of it) or None => spaces
  extra        [[key, value], ...] additional primary TEXT pairs (inserted before the $Pn block)
  stext        [[key, value], ...] or None -- supplemental TEXT segment
  stext_raw    str or None -- supplemental TEXT segment written verbatim (may be ill-formed)
  stext_after  bool -- supplemental TEXT segment placed behind DATA instead of in front of it
  stext_first  bool -- supplemental TEXT segment placed in front of the primary TEXT segment
  in_stext     subset of ['G','V','S'] -- these optional $Pn keywords are written into the supplemental segment
  analysis     [[key, value], ...] or None
  analysis_in  'header' | 'text'
  mode         $MODE value
  tot, par     overrides for the printed $TOT / $PAR
  text_over    {keyword: value}  -- replace printed value of a primary TEXT keyword
  field_over   {'text_begin'|'text_end'|'data_begin'|'data_end'|'$BEGINDATA'|'$ENDDATA': int}
               applied after the layout is fixed (same printed width)
"""
import random

HEADER_LEN = 58


def esc(s, d):
    return s.replace(d, d + d)


def encode_pairs(pairs, delim, leading=True):
    """Delimiter-joined pairs with doubling; begins (optionally) and ends with the delimiter."""
    body = delim.join(esc(k, delim) + delim + esc(v, delim) for k, v in pairs)
    if not pairs:
        return delim if leading else ''
    return (delim if leading else '') + body + delim


def little_of(spec):
    if 'little' in spec:
        return bool(spec['little'])
    return spec.get('byteord', '4,3,2,1') in ('1,2,3,4', '1,2')


def encode_data(spec):
    out = bytearray()
    order = 'little' if little_of(spec) else 'big'
    dt = spec.get('datatype', 'I')
    widths = spec['widths']
    for row in spec['events']:
        for v, w in zip(row, widths):
            out += int(v).to_bytes(w // 8, order)
    return bytes(out)


def _padding(n, rnd, delim):
    if n <= 0:
        return b''
    if rnd is None:
        return b' ' * n
    return bytes(rnd.randrange(256) for _ in range(n))


def text_pairs(spec, data_begin, data_end, st_begin, st_end, an_begin, an_end):
    version = spec.get('version', 'FCS3.0')
    widths = spec['widths']
    D = len(widths)
    names = spec.get('names') or ['P%d' % (i + 1) for i in range(D)]
    ranges = spec.get('ranges') or [2 ** w for w in widths]
    pne = spec.get('pne') or ['0,0'] * D
    pairs = []
    # segment offsets are written with a fixed width of ten characters: zero-padded, or padded with blanks on either
    # side (the standard allows leading blanks or zeros; either reads as the same integer)
    num = {'blank_left': (lambda x: '%10d' % x), 'blank_right': (lambda x: '%-10d' % x)}.get(
        spec.get('num_pad'), (lambda x: '%010d' % x))
    if version != 'FCS2.0' or spec.get('force3kw'):
        pairs += [('$BEGINANALYSIS', num(an_begin if spec.get('analysis_in', 'header') == 'text' else 0)),
                  ('$ENDANALYSIS', num(an_end if spec.get('analysis_in', 'header') == 'text' else 0)),
                  ('$BEGINSTEXT', num(st_begin)), ('$ENDSTEXT', num(st_end)),
                  ('$BEGINDATA', num(data_begin)), ('$ENDDATA', num(data_end))]
    pairs += [('$BYTEORD', spec.get('byteord', '4,3,2,1')),
              ('$DATATYPE', spec.get('datatype', 'I')),
              ('$MODE', spec.get('mode', 'L')),
              ('$NEXTDATA', '0'),
              ('$PAR', str(spec['par'] if spec.get('par') is not None else D)),
              ('$TOT', str(spec['tot'] if spec.get('tot') is not None else len(spec['events'])))]
    pairs += [(k, v) for k, v in spec.get('extra', [])]
    for i in range(D):
        n = i + 1
        pairs.append(('$P%dB' % n, str(widths[i])))
        if pne[i] is not None:
            pairs.append(('$P%dE' % n, pne[i]))
        pairs.append(('$P%dN' % n, names[i]))
        pairs.append(('$P%dR' % n, str(ranges[i])))
        for kw, key in (('G', 'png'), ('V', 'pnv'), ('S', 'pns')):
            lst = spec.get(key)
            if lst and lst[i] is not None and kw not in moved_to_stext(spec):
                pairs.append(('$P%d%s' % (n, kw), str(lst[i])))
    over = spec.get('text_over') or {}
    pairs = [(k, over.get(k, v)) for k, v in pairs]
    return pairs


def moved_to_stext(spec):
    """Optional per-parameter keywords ('G', 'V', 'S') that are written into the supplemental TEXT segment instead of
    the primary one (spec['in_stext']; FCS3.0 and later, and only with a well-formed supplemental segment)."""
    if spec.get('version', 'FCS3.0') == 'FCS2.0' or spec.get('stext_raw') is not None:
        return ()
    return tuple(spec.get('in_stext') or ())


def build(spec):
    """Return (bytes, info).  info holds the layout and the pairs written."""
    delim = spec.get('delim', '/')
    version = spec.get('version', 'FCS3.0')
    pad = list(spec.get('pad') or [0, 0, 0]) + [0, 0, 0]
    rnd = random.Random(spec['pad_seed']) if spec.get('pad_seed') is not None else None
    data = encode_data(spec)
    stext = spec.get('stext')
    if moved_to_stext(spec):
        stext = [list(kv) for kv in (stext or [])]
        for i in range(len(spec['widths'])):
            for kw, key in (('G', 'png'), ('V', 'pnv'), ('S', 'pns')):
                lst = spec.get(key)
                if lst and lst[i] is not None and kw in moved_to_stext(spec):
                    stext.append(['$P%d%s' % (i + 1, kw), str(lst[i])])
    analysis = spec.get('analysis')
    st_bytes = encode_pairs(stext, delim, leading=spec.get('stext_leading', True)).encode('latin-1') \
        if stext is not None else b''
    if spec.get('stext_raw') is not None:            # a supplemental segment written verbatim (possibly ill-formed)
        stext = True
        st_bytes = spec['stext_raw'].encode('latin-1')
    st_after = bool(spec.get('stext_after')) and stext is not None     # supplemental TEXT behind DATA
    an_bytes = encode_pairs(analysis, delim, leading=spec.get('analysis_leading', True)).encode('latin-1') \
        if analysis is not None else b''

    st_first = bool(spec.get('stext_first')) and stext is not None and not st_after   # supplemental TEXT in front of TEXT

    def layout(text_len):
        pos = HEADER_LEN + pad[0]
        if st_first:
            pos += len(st_bytes) + pad[0]
        text_begin = pos
        text_end = pos + text_len - 1
        pos = text_end + 1 + pad[1]
        st_begin = st_end = 0
        if st_first:
            st_begin, st_end = HEADER_LEN + pad[0], HEADER_LEN + pad[0] + len(st_bytes) - 1
        elif stext is not None and not st_after:
            st_begin, st_end = pos, pos + len(st_bytes) - 1
            pos = st_end + 1 + pad[1]
        data_begin = pos
        data_last = pos + len(data) - 1
        data_end = data_last + (1 if spec.get('end_plus_one') else 0)
        pos = data_last + 1 + pad[2]
        if st_after:
            st_begin, st_end = pos, pos + len(st_bytes) - 1
            pos = st_end + 1
        if analysis is not None:
            an_begin, an_end = pos, pos + len(an_bytes) - 1
            pos = an_end + 1
        else:
            an_begin = an_end = 0
        return dict(text_begin=text_begin, text_end=text_end, st_begin=st_begin, st_end=st_end,
                    data_begin=data_begin, data_end=data_end, data_last=data_last,
                    an_begin=an_begin, an_end=an_end, total=pos)

    # all numeric offset fields are fixed width, so one pass fixes the layout
    p0 = text_pairs(spec, 0, 0, 0, 0, 0, 0)
    text_len = len(encode_pairs(p0, delim).encode('latin-1'))
    L = layout(text_len)
    pairs = text_pairs(spec, L['data_begin'], L['data_end'], L['st_begin'], L['st_end'],
                       L['an_begin'], L['an_end'])
    fo = spec.get('field_over') or {}
    if '$BEGINDATA' in fo or '$ENDDATA' in fo:
        pairs = [(k, ('%010d' % fo[k]) if k in fo else v) for k, v in pairs]      # (corrupted offsets stay zero-padded)
    text = encode_pairs(pairs, delim).encode('latin-1')
    assert len(text) == text_len, (len(text), text_len)

    in_header = spec.get('offsets_in', 'header') == 'header'
    h = dict(text_begin=L['text_begin'], text_end=L['text_end'],
             data_begin=L['data_begin'] if in_header else 0,
             data_end=L['data_end'] if in_header else 0,
             an_begin=L['an_begin'] if spec.get('analysis_in', 'header') == 'header' else 0,
             an_end=L['an_end'] if spec.get('analysis_in', 'header') == 'header' else 0)
    for k in ('text_begin', 'text_end', 'data_begin', 'data_end'):
        if k in fo:
            h[k] = fo[k]
    if spec.get('blank_analysis') and not (h['an_begin'] or h['an_end']):
        an_fields = ' ' * 16
    else:
        an_fields = '%8d%8d' % (h['an_begin'], h['an_end'])
    header = ('%-10s%8d%8d%8d%8d' % (version, h['text_begin'], h['text_end'],
                                     h['data_begin'], h['data_end']) + an_fields).encode('ascii')
    assert len(header) == HEADER_LEN, header

    buf = bytearray()
    buf += header
    buf += _padding(pad[0], rnd, delim)
    if st_first:
        assert len(buf) == L['st_begin']
        buf += st_bytes
        buf += _padding(pad[0], rnd, delim)
    assert len(buf) == L['text_begin']
    buf += text
    buf += _padding(pad[1], rnd, delim)
    if stext is not None and not st_after and not st_first:
        buf += st_bytes
        buf += _padding(pad[1], rnd, delim)
    assert len(buf) == L['data_begin']
    buf += data
    buf += _padding(pad[2], rnd, delim)
    if st_after:
        assert len(buf) == L['st_begin']
        buf += st_bytes
    if analysis is not None:
        assert len(buf) == L['an_begin']
        buf += an_bytes
    buf += _padding(int(spec.get('trail', 0)), rnd, delim)
    info = dict(L)
    info['pairs'] = pairs
    info['header'] = h
    info['text_dict'] = dict(pairs)
    return bytes(buf), info


def write(path, spec):
    buf, info = build(spec)
    with open(path, 'wb') as f:
        f.write(buf)
    return buf, info
