"""C05 -- the density gate keeps the densest whole bins holding the requested share."""
import math

import numpy as np
from hypothesis import strategies as st

from pbt.props.c03 import _spell
from pbt.samples import derived_from_used_parent, call, raised, build, sample_spec

ID = 'C05'
LEVEL = 'exploration'
ENGINES = ['hypothesis', 'enumeration of (integer levels x bin count)']
RULE = ('Hypothesis draws an event set (2..300 events: small-integer grid with heavy ties, Gaussian blob, blob + '
        'uniform background, two blobs; optionally events placed exactly on drawn bin edges and outside an '
        'explicit grid), a bin specification (count, [nx,ny], explicit uniform / non-uniform edges, per-axis '
        'mixtures; for loaded samples None/counts resolved through hist_bins in linear/log/logicle scale), a '
        'fraction f (0, 1, k/n, uniform), a smoothing width (scalar or per-axis), a permutation and a second '
        'fraction f2>=f.  Non-trivial = at least one out-of-grid event or an event on a bin edge, and 0<f<1.')
ASSUMPTIONS = ["scipy.ndimage.gaussian_filter (mode='constant', truncate=6) is the documented smoothing and is "
               'used by the oracle on its own histogram',
               'event-to-bin assignment by the oracle: searchsorted, left-closed/right-open, last bin closed',
               'ceil(f*n) evaluated in float arithmetic as any caller would',
               'grids have >=2 bins per axis (the contour finder used for full_output needs it)']
BUDGET = {
    'quick': dict(examples=3200, time_s=300),
    'thorough': dict(examples=120000, time_s=1800, fuzz=dict(workers=8, runs=6000, max_s=300)),
}


@st.composite
def _edges(draw):
    n = draw(st.integers(2, 10))
    lo = draw(st.sampled_from([0.0, -1.0, 0.5, 2.0, 0.05, -12.0, -30.0]))      # (-12, -30: grids that end below zero)
    if draw(st.booleans()):
        w = draw(st.sampled_from([1.0, 0.5, 2.0, 1.25, 0.1, 0.3]))       # decimal widths: edges that single precision cannot hold
        return [lo + w * i for i in range(n + 1)]
    e = [lo]
    for _ in range(n):
        e.append(e[-1] + draw(st.sampled_from([0.25, 0.5, 1.0, 1.5, 3.0])))
    return e


@st.composite
def _array_case(draw):
    n = draw(st.integers(2, 300))
    kind = draw(st.sampled_from(['grid', 'blob', 'blob_bg', 'two_blobs']))
    bx = draw(st.one_of(st.integers(2, 12), _edges()))
    by = draw(st.one_of(st.integers(2, 12), _edges()))
    form = draw(st.sampled_from(['pair', 'pair', 'pair', 'count']))
    if form == 'count':
        bx = by = draw(st.integers(2, 12))
    # events to place exactly on edges (only meaningful for explicit edges)
    on_edges = []
    for _ in range(draw(st.integers(0, 5))):
        ex = draw(st.sampled_from(bx)) if isinstance(bx, list) else draw(st.floats(0, 8))
        ey = draw(st.sampled_from(by)) if isinstance(by, list) else draw(st.floats(0, 8))
        # exactly on the edge, or a hair off it (one ulp, or 2e-6 relative: inside the tolerance of an `isclose`)
        nudge = st.sampled_from([0, 0, 0, 1, -1, 2, -2])
        on_edges.append([draw(st.integers(0, n - 1)), ex, ey, draw(nudge), draw(nudge)])
    return dict(arm='array', dtype=draw(st.sampled_from([None, None, None, None, 'float32'])) if kind != 'grid' else None,
                n=n, kind=kind, data_seed=draw(st.integers(0, 2 ** 20)), on_edges=on_edges,
                bins_form=form, bx=bx, by=by, integer=draw(st.booleans()) if kind == 'grid' else False)


@st.composite
def _sample_case(draw):
    spec = draw(sample_spec(min_d=2, max_d=4, min_n=2, max_n=200, datatypes=('I',), resolutions=(16, 32, 64),
                            int_widths=(8, 16), log_amp=False))
    D = len(spec['widths'])
    spec['col_kind'] = [draw(st.sampled_from(['uniform', 'small', 'uniform'])) for _ in range(D)]
    spec['specials'] = [[draw(st.integers(0, max(spec['n'] - 1, 0))), draw(st.integers(0, D - 1)),
                         draw(st.sampled_from([0, 1, spec['ranges'][0] - 1]))] for _ in range(draw(st.integers(0, 4)))]
    spec['specials'] = [s for s in spec['specials'] if s[2] < spec['ranges'][s[1]]]
    sel = draw(st.lists(st.integers(0, D - 1), min_size=2, max_size=2, unique=True))
    nb = st.one_of(st.none(), st.integers(2, 20))
    form = draw(st.sampled_from(['none', 'count', 'pair']))
    bins = None if form == 'none' else (draw(st.integers(2, 20)) if form == 'count' else [draw(nb), draw(nb)])
    return dict(arm='sample', spec=spec, sel=sel, spell=[draw(st.sampled_from(['name', 'pos', 'neg'])) for _ in range(2)],
                bins=bins, xscale=draw(st.sampled_from(['linear', 'log', 'logicle'])),
                yscale=draw(st.sampled_from(['linear', 'log', 'logicle'])), to_rfi=draw(st.booleans()), derived=draw(st.sampled_from([None, None, None, ['slice', 1], ['slice', 2], ['list', 1], ['perm', 1], ['permname', 2]])))


@st.composite
def _case(draw):
    c = draw(st.one_of(_array_case(), _array_case(), _sample_case()))
    n = c['n'] if c['arm'] == 'array' else c['spec']['n']
    fk = draw(st.sampled_from(['zero', 'one', 'k_over_n', 'k_over_n', 'k_over_n', 'uniform', 'uniform', 'uniform', 'uniform']))
    if fk == 'zero':
        f = 0.0
    elif fk == 'one':
        f = 1.0
    elif fk == 'k_over_n':
        f = draw(st.integers(1, n)) / float(n)
    else:
        f = draw(st.floats(0, 1))
    c['f'] = f
    c['f2'] = min(1.0, f + draw(st.floats(0, 0.5)))
    c['sigma'] = draw(st.one_of(st.sampled_from([0.0, 0.5, 1.0, 3.0, 10.0, 0.75, 1.75, 2.75, 0.25]),
                                st.tuples(st.sampled_from([0.5, 1.0, 3.0]), st.sampled_from([0.0, 1.0, 5.0])).map(list)))
    c['perm_seed'] = draw(st.integers(0, 2 ** 16))
    c['refuse'] = draw(st.sampled_from([None] * 9 + ['f_neg', 'f_big', 'one_channel', 'three_channels', 'one_event']))
    return c


def strategy(tier):
    return _case()


# integer-valued events x a number of equal-width bins: every pair (number of levels, number of bins), because whether
# a level falls exactly on an interior edge (and on which side rounding puts it) depends on both
def exhaustive_jobs(tier):
    top = 40 if tier == 'quick' else 64
    return [[(L, nb) for nb in range(2, top)] for L in range(1, top)]


def run_job(job):
    from pbt.runner import Obs
    ev = nt = 0
    failures, claims = [], {}
    for L, nb in job:
        case = dict(arm='array', dtype=None, n=3 * (L + 1), kind='levels', levels=L, data_seed=0, on_edges=[], bins_form='count',
                    bx=nb, by=nb, integer=(L + nb) % 2 == 0, f=0.5, f2=0.8, sigma=[1.0, 0.0, 0.75, 1.75][(L + nb) % 4], perm_seed=L * 100 + nb,
                    refuse=None)
        obs = Obs()
        try:
            check(case, obs)
        except Exception as e:
            obs.failures.append(('crash', 'levels %d bins %d: %s: %s' % (L, nb, type(e).__name__, e)))
        ev += 1
        nt += 1
        for k_, v_ in obs.claims.items():
            claims[k_] = claims.get(k_, 0) + v_
        for t, m in obs.failures[:2]:
            if len(failures) < 5:
                failures.append((t, m, case))
    return dict(evaluations=ev, nontrivial=nt, failures=failures, labels={'levels_x_bins': ev}, claims=claims, samples=[], complete=True)


def _events(c):
    rng = np.random.Generator(np.random.PCG64(c['data_seed']))
    n, kind = c['n'], c['kind']
    if kind == 'levels':
        # every integer level 0..L three times, the second channel a permutation of the first
        L = c['levels']
        i = np.arange(n)
        X = np.column_stack([i % (L + 1), (i * 7 + 3) % (L + 1)]).astype(float)
    elif kind == 'grid':
        X = rng.integers(0, 8, size=(n, 2)).astype(float)
    elif kind == 'blob':
        X = rng.normal(4, 1.5, size=(n, 2))
    elif kind == 'blob_bg':
        X = np.concatenate([rng.normal(2, 0.4, size=(n // 2, 2)), rng.uniform(-2, 12, size=(n - n // 2, 2))])
    else:
        X = np.concatenate([rng.normal(2, 0.5, size=(n // 2, 2)), rng.normal(6, 0.8, size=(n - n // 2, 2))])
    def nudged(v, k):
        v = float(v)
        if k in (1, -1):
            return float(np.nextafter(v, math.inf if k > 0 else -math.inf))
        if k in (2, -2):
            return v + (2e-6 * max(abs(v), 1e-3)) * (1 if k > 0 else -1)
        return v
    for oe in c['on_edges']:
        r, ex, ey = oe[:3]
        kx, ky = (oe[3], oe[4]) if len(oe) > 3 else (0, 0)
        X[r] = [nudged(ex, kx), nudged(ey, ky)]
    if c.get('integer'):
        X = np.round(X).astype(np.int64)
    if c.get('dtype') == 'float32':
        X = X.astype(np.float32)            # single-precision events (an event "on" a decimal edge is then a hair off it)
    return X


def _binidx(v, e):
    i = np.searchsorted(e, v, side='right') - 1
    i = np.where(v == e[-1], len(e) - 2, i)
    out = (v < e[0]) | (v > e[-1])
    return i, out


def _fresh(b):
    """A fresh copy of a bin specification (C13 owns mutation of caller-owned lists)."""
    if isinstance(b, list):
        return [(list(x) if isinstance(x, list) else x) for x in b]
    return b


def check(case, obs):
    import FlowCal.gate as gate
    import FlowCal.transform
    import scipy.ndimage
    f, f2, sigma = case['f'], case['f2'], case['sigma']
    if case['arm'] == 'array':
        X = _events(case)
        data = X
        ch = [0, 1]
        if case['bins_form'] == 'count':
            bins = case['bx']
        else:
            bins = [np.array(case['bx'], dtype=float) if isinstance(case['bx'], list) else case['bx'],
                    np.array(case['by'], dtype=float) if isinstance(case['by'], list) else case['by']]
        kw = {}
        mk = lambda: ([b.copy() if hasattr(b, 'copy') else b for b in bins] if isinstance(bins, list) else bins)
        XY = np.asarray(X, dtype=float)
    else:
        spec = case['spec']
        d = build(spec) if not case.get('derived') else derived_from_used_parent(spec, case['derived'][1], case['derived'][0])
        if case['to_rfi']:
            d = FlowCal.transform.to_rfi(d)
        data = d
        names = list(d.channels)
        ch = [_spell(j, sp, names, False) for j, sp in zip(case['sel'], case['spell'])]
        bins = case['bins']
        kw = dict(xscale=case['xscale'], yscale=case['yscale'])
        mk = lambda: _fresh(bins)
        XY = np.asarray(d, dtype=float)[:, case['sel']]
    n_all = XY.shape[0]
    sig = tuple(sigma) if isinstance(sigma, list) else sigma
    obs.label('arm:' + case['arm'])

    # ---------------------------------------------------------------- refusals
    if case['refuse'] is not None:
        r = case['refuse']
        obs.label('refuse')
        obs.nontrivial = True
        if r == 'f_neg':
            out = call(gate.density2d, data, channels=ch, bins=mk(), gate_fraction=-0.01 - f, sigma=sig, **kw)
        elif r == 'f_big':
            out = call(gate.density2d, data, channels=ch, bins=mk(), gate_fraction=1.01 + f, sigma=sig, **kw)
        elif r == 'one_channel':
            out = call(gate.density2d, data, channels=ch[:1], bins=mk(), gate_fraction=f, sigma=sig, **kw)
        elif r == 'three_channels':
            out = call(gate.density2d, data, channels=ch + ch[:1], bins=mk(), gate_fraction=f, sigma=sig, **kw)
        else:
            out = call(gate.density2d, data[:1], channels=ch, bins=mk(), gate_fraction=f, sigma=sig, **kw)
        obs.claim('refuse', raised(out), lambda: 'request %s accepted' % r)
        return

    out = call(gate.density2d, data, channels=ch, bins=mk(), gate_fraction=f, sigma=sig, full_output=True, **kw)
    if not obs.claim('returns', not raised(out), lambda: 'density2d raised %r (f=%r bins=%r)' % (out, f, bins)):
        return
    xe, ye = (np.asarray(e, dtype=float) for e in out.bin_edges)
    mask = np.asarray(out.mask)
    bm = np.asarray(out.bin_mask)
    first = (np.array(out.bin_edges[0], dtype=float), np.array(out.bin_edges[1], dtype=float), mask.copy(), bm.copy())
    if not obs.claim('shapes', mask.dtype == bool and mask.shape == (n_all,) and bm.dtype == bool
                     and bm.shape == (len(xe) - 1, len(ye) - 1) and len(xe) >= 2 and len(ye) >= 2,
                     lambda: 'mask %r bin_mask %r edges %d x %d' % (mask.shape, bm.shape, len(xe), len(ye))):
        return
    # requested grid honoured
    if case['arm'] == 'array':
        for req, got, nm in ((case['bx'], xe, 'x'), (case['by'], ye, 'y')):
            if isinstance(req, list):
                obs.claim('grid', np.array_equal(np.asarray(req, dtype=float), got), lambda: '%s edges changed' % nm)
            else:
                obs.claim('grid', len(got) == req + 1, lambda: '%s: %d bins for request %r' % (nm, len(got) - 1, req))
    else:
        d2 = data[:, ch]
        for axis, got, scale in ((0, xe, case['xscale']), (1, ye, case['yscale'])):
            nb = bins[axis] if isinstance(bins, list) else bins
            exp = np.asarray(d2.hist_bins(channels=axis, nbins=nb, scale=scale), dtype=float)
            obs.claim('grid', exp.shape == got.shape and np.array_equal(exp, got),
                      lambda: 'axis %d: edges are not hist_bins(nbins=%r, scale=%s)' % (axis, nb, scale))

    ix, ox = _binidx(XY[:, 0], xe)
    iy, oy = _binidx(XY[:, 1], ye)
    outl = ox | oy
    inside = ~outl
    n_in = int(inside.sum())
    on_edge = bool(np.any(np.isin(XY[:, 0], xe)) or np.any(np.isin(XY[:, 1], ye)))
    obs.nontrivial = (bool(outl.any()) or on_edge) and 0 < f < 1
    obs.label('outliers' if outl.any() else 'no_outliers', 'on_edge' if on_edge else 'off_edge',
              'f=0' if f == 0 else ('f=1' if f == 1 else 'f_mid'))
    obs.claim('in_grid', not bool(np.any(mask & outl)), 'an event outside the grid was kept')
    # atomic: mask of an in-grid event is the bin_mask of its bin
    obs.claim('atomic', bool(np.array_equal(mask[inside], bm[ix[inside], iy[inside]])),
              'events of one bin are not kept/dropped together (mask != bin_mask[bin of event])')
    target = int(math.ceil(f * float(n_in)))
    kept = int(mask.sum())
    obs.claim('lower_bound', kept >= target, lambda: 'kept %d < ceil(f*n)=%d (f=%r, n_in=%d)' % (kept, target, f, n_in))
    H = np.zeros((len(xe) - 1, len(ye) - 1))
    np.add.at(H, (ix[inside], iy[inside]), 1)
    if f == 0:
        obs.claim('f0_f1', kept == 0, lambda: 'f=0 kept %d events' % kept)
    if f == 1:
        obs.claim('f0_f1', kept == n_in, lambda: 'f=1 kept %d of %d in-grid events' % (kept, n_in))
    if target > 0:
        sH = scipy.ndimage.gaussian_filter(H, sigma=sig, order=0, mode='constant', cval=0.0, truncate=6.0)
        kd = sH[bm]
        dd = sH[~bm]
        if kd.size and dd.size:
            # the library orders the normalised density sH/sum(sH): allow the rounding of that division
            obs.claim('density_order', float(kd.min()) >= float(dd.max()) * (1 - 1e-12),
                      lambda: 'a kept bin (density %r) is less dense than a dropped bin (%r)' % (kd.min(), dd.max()))
        if kd.size:
            kb = np.argwhere(bm)
            dens = np.array([sH[a, b] for a, b in kb])
            least = kb[dens <= dens.min() * (1 + 1e-12)]
            # among the kept bins of (equal) lowest density at least one must be indispensable: the gate stops at
            # the first bin of the density order that reaches ceil(f*n)
            obs.claim('minimal', any(kept - H[a, b] < target for a, b in least),
                      lambda: 'every one of the %d least dense kept bins can be dropped and still %d >= %d events remain' % (
                          len(least), kept - max(H[a, b] for a, b in least), target))
            if len(least) > 1:
                obs.label('density_tie_at_cutoff')
    # boundary probes: a fraction that asks for exactly the number of events just kept (a cumulative bin count),
    # and its float neighbours -- where ceil(f*n) computed in floats decides between this bin boundary and the next
    if 0 < kept <= n_in:
        fb = kept / float(n_in)
        for fp in (fb, math.nextafter(fb, 2.0), math.nextafter(fb, -1.0)):
            if not (0 <= fp <= 1):
                continue
            ob = call(gate.density2d, data, channels=ch, bins=mk(), gate_fraction=fp, sigma=sig, full_output=True, **kw)
            tb = int(math.ceil(fp * float(n_in)))
            okb = not raised(ob) and int(np.asarray(ob.mask).sum()) >= tb
            obs.claim('lower_bound', okb, lambda: 'boundary probe f=%r (n_in=%d): kept %r < ceil(f*n)=%d' % (
                fp, n_in, None if raised(ob) else int(np.asarray(ob.mask).sum()), tb))
            if okb and tb <= kept:
                obs.claim('minimal', int(np.asarray(ob.mask).sum()) <= kept,
                          lambda: 'boundary probe f=%r: kept %d although %d events already satisfy ceil(f*n)=%d' % (
                              fp, int(np.asarray(ob.mask).sum()), kept, tb))
    g = out.gated_data
    base = np.asarray(data)
    obs.claim('gated', np.asarray(g).shape == base[mask].shape and np.array_equal(np.asarray(g), base[mask]),
              'gated_data != data[mask]')
    short = call(gate.density2d, data, channels=ch, bins=mk(), gate_fraction=f, sigma=sig, **kw)
    obs.claim('gated', not raised(short) and np.asarray(short).shape == np.asarray(g).shape
              and np.array_equal(np.asarray(short), np.asarray(g)), 'short form differs from full form')
    # permutation of the events
    perm = np.random.Generator(np.random.PCG64(case['perm_seed'])).permutation(n_all)
    outp = call(gate.density2d, data[perm], channels=ch, bins=mk(), gate_fraction=f, sigma=sig, full_output=True, **kw)
    obs.claim('perm', not raised(outp) and np.array_equal(np.asarray(outp.mask), mask[perm]),
              'the kept set depends on the order of events')
    # monotone in f
    out2 = call(gate.density2d, data, channels=ch, bins=mk(), gate_fraction=f2, sigma=sig, full_output=True, **kw)
    obs.claim('monotone', not raised(out2) and not bool(np.any(mask & ~np.asarray(out2.mask))),
              lambda: 'kept(f=%r) is not a subset of kept(f=%r)' % (f, f2))
    # replay with the returned edges and bin mask
    out3 = call(gate.density2d, data, channels=ch, bins=[xe.copy(), ye.copy()], bin_mask=bm.copy(), full_output=True, **kw)
    obs.claim('replay', not raised(out3) and np.array_equal(np.asarray(out3.mask), mask)
              and np.array_equal(np.asarray(out3.bin_mask), bm),
              lambda: 're-gating with the returned bin edges and bin mask gives another result (%r)' % (out3 if raised(out3) else ''))
    # what the first call returned is still what it returned (later calls share nothing with it)
    obs.claim('stable', np.array_equal(first[0], np.asarray(out.bin_edges[0], dtype=float))
              and np.array_equal(first[1], np.asarray(out.bin_edges[1], dtype=float))
              and np.array_equal(first[2], np.asarray(out.mask)) and np.array_equal(first[3], np.asarray(out.bin_mask)),
              'the result of the first gate call changed after later gate calls')
