"""C16 -- truncated or inconsistent FCS files fail loudly instead of yielding other data."""
import json
import math
import os

import numpy as np
from hypothesis import strategies as st

from pbt import fcsgen
from pbt.props import c01
from pbt.runner import workdir
from pbt.samples import call, raised, native

ID = 'C16'
LEVEL = 'fault_enumeration'
RULE = ('Hypothesis draws small files (3..8 events, 1..4 parameters) over every layout axis of C01; for each file '
        'EVERY truncation offset 0..len-1 is tried (exhaustive per file, incl. the empty file) plus single-field '
        'corruptions of $TOT, $PAR, each $PnB, HEADER text/data begin/end and TEXT $BEGINDATA/$ENDDATA to '
        '{v-1, v+1, v/2, 2v, 0, 99999} (offsets also v-2, v-3, v-5, v+2, v+3; same printed width, rest of the file self-consistent). evaluations counts '
        'files; subclaims.loud counts damaged loads.  Non-trivial file = one that has a cut inside TEXT or DATA and '
        'at least one corruption that leaves the file parseable up to the size check (every generated file).')
ASSUMPTIONS = ['independent writer pbt/fcsgen.py; the intact answer is known from the case',
               "the reader's documented one-past-the-end tolerance makes a corruption whose declared DATA extent is "
               'size or size+1 (for the corrupted $TOT x row bytes) indistinguishable from a consistent file: those '
               'are skipped and counted under excluded.ambiguous_extent',
               'any exception type counts as "raises"']
BUDGET = {
    'quick': dict(examples=160, time_s=300, shrink_cap_s=60),
    'thorough': dict(examples=6000, time_s=2400, shrink_cap_s=120),
}


@st.composite
def _file(draw):
    spec = draw(c01._layout(d_strategy=st.integers(1, 4), n_strategy=st.integers(3, 8), widths_pool=[8, 16, 24, 32],
                           narrow=st.sampled_from([True, False, False, False])))
    spec['pad'] = [draw(st.integers(0, 6)), draw(st.integers(0, 9)), draw(st.integers(0, 6))]
    spec['trail'] = draw(st.integers(0, 3))
    # no ANALYSIS segment: the reader documents that an unparseable ANALYSIS segment is replaced by an empty
    # dictionary with a warning, so a cut inside it is not "loud" by design; C16 quantifies over C01's layouts
    if spec['version'] != 'FCS2.0' and draw(st.sampled_from([True, False, False])):
        # a supplemental TEXT segment, in front of DATA or behind it (then a cut can hit it while DATA is complete)
        spec['stext'] = [['KS%d' % i, draw(st.sampled_from(['v', 'val ue', '1', 'x' * 9]))] for i in range(draw(st.integers(1, 3)))]
        spec['stext_after'] = draw(st.booleans())
    if draw(st.sampled_from([True, False, False])):
        # text is ISO-8859-1: 'Ã©' are two characters (whose bytes would also read as one UTF-8 character)
        spec['extra'] = list(spec.get('extra') or []) + [['SRC', 'caf\xc3\xa9 6 \xc2\xb5m']]
    if not spec.get('stext_after') and draw(st.sampled_from([True, False, False])):
        # DATA is the last thing in the file and its end offset is written one past the last byte (= the file size)
        spec['pad'][2] = 0
        spec['trail'] = 0
        spec['end_plus_one'] = True
    return dict(spec=spec, only=None)


def strategy(tier):
    return _file()


def variants(v, offsets=False):
    vs = [v - 1, v + 1, v // 2, v * 2, 0, 99999]
    if offsets:
        vs += [v - 2, v - 3, v - 5, v + 2, v + 3]          # a few bytes off: lands inside the neighbouring token
    return sorted(set(x for x in vs if x >= 0 and x != v))


def damages(spec, info):
    """All single-field corruptions for this file: list of dicts."""
    D = len(spec['widths'])
    out = []
    N = len(spec['events'])
    for nv in variants(N):
        out.append(dict(kind='field', field='$TOT', value=nv))
    for nv in variants(D):
        out.append(dict(kind='field', field='$PAR', value=nv))
    for j in range(D):
        for nv in variants(spec['widths'][j]):
            out.append(dict(kind='field', field='$P%dB' % (j + 1), value=nv))
    h = info['header']
    for f in ('text_begin', 'text_end', 'data_begin', 'data_end'):
        if h[f]:
            for nv in variants(h[f], offsets=True):
                out.append(dict(kind='field', field=f, value=nv))
    # a TEXT begin offset that lands exactly on the delimiter in front of a later keyword (the segment then parses,
    # without its first keywords)
    if h['text_begin']:
        delim = spec.get('delim', '/')
        for k in range(1, min(13, len(info['pairs']))):
            pos = h['text_begin'] + len(fcsgen.encode_pairs(info['pairs'][:k], delim).encode('latin-1')) - 1
            out.append(dict(kind='field', field='text_begin', value=pos))
    if spec['version'] != 'FCS2.0':
        for f, v in (('$BEGINDATA', info['data_begin']), ('$ENDDATA', info['data_end'])):
            for nv in variants(v, offsets=True):
                out.append(dict(kind='field', field=f, value=nv))
    return out


def damaged_spec(spec, dmg):
    s = dict(spec)
    f = dmg['field']
    if f in ('$TOT', '$PAR') or (f.startswith('$P') and f.endswith('B')):
        over = dict(s.get('text_over') or {})
        over[f] = str(dmg['value'])
        s['text_over'] = over
    else:
        fo = dict(s.get('field_over') or {})
        fo[f] = dmg['value']
        s['field_over'] = fo
    return s


def ambiguous(spec, info, dmg):
    """True when the corrupted file is self-consistent under the one-past tolerance (declared DATA extent equals
    the corrupted $TOT x row bytes, or that plus one)."""
    D = len(spec['widths'])
    widths = list(spec['widths'])
    N = len(spec['events'])
    par = D
    f, v = dmg['field'], dmg['value']
    if f == '$TOT':
        N = v
    elif f == '$PAR':
        par = v
    elif f.startswith('$P') and f.endswith('B'):
        widths[int(f[2:-1]) - 1] = v
    if par > D or par < 0:
        return False
    widths = widths[:par]
    if any(w % 8 for w in widths):
        return False
    row = sum(w // 8 for w in widths)
    size = N * row
    h = dict(info['header'])
    tb, te = info['data_begin'], info['data_end']
    if f in h:
        h[f] = v
    if f == '$BEGINDATA':
        tb = v
    if f == '$ENDDATA':
        te = v
    if h['data_begin'] and h['data_end']:
        b, e = h['data_begin'], h['data_end']
    else:
        b, e = tb, te
    if (b, e, N, widths) == (info['data_begin'], info['data_end'], len(spec['events']), list(spec['widths'])):
        return False        # the corruption does not touch what the DATA size check sees
    return (e + 1 - b) in (size, size + 1)


def load(path):
    import FlowCal.io
    d = call(FlowCal.io.FCSData, path)
    if raised(d):
        return None
    return d


def same_as(d, exp_bits, exp_text, exp_an, u):
    a = native(np.asarray(d))
    ok_m = a.shape == exp_bits.shape and a.dtype.itemsize == exp_bits.dtype.itemsize and \
        bool(np.array_equal(a.view(exp_bits.dtype) if a.size else a.reshape(exp_bits.shape), exp_bits))
    text = dict(d.text)
    changed = sorted(k for k in exp_text if k in text and text[k] != exp_text[k])
    missing = sorted(k for k in exp_text if k not in text)
    extra = sorted(k for k in text if k not in exp_text)
    ok_t = not changed and not missing and not extra and dict(d.analysis) == exp_an
    return ok_m and ok_t, dict(matrix_equal=ok_m, shape=list(a.shape), changed=changed, missing=missing, extra=extra,
                               analysis_equal=dict(d.analysis) == exp_an)


def expected_bits(spec):
    """Intact matrix as unsigned bit patterns in the reader's result width."""
    N, D = len(spec['events']), len(spec['widths'])
    if spec['datatype'] == 'I':
        w = max(spec['widths'])
        bits = 8 if w <= 8 else 16 if w <= 16 else 32 if w <= 32 else 64
        m = [[c01.expected_int(v, R) for v, R in zip(row, spec['ranges'])] for row in spec['events']]
        return np.array(m, dtype='u%d' % (bits // 8)).reshape((N, D))
    u = 'u4' if spec['datatype'] == 'F' else 'u8'
    return np.array(spec['events'], dtype=u).reshape((N, D))


def known_match(entry, case, tag, msg):
    # C16-KF1: HEADER text_end beyond the true end; intact events, intact pairs (last one possibly extended),
    # extra material only from the bytes that follow TEXT
    if entry['id'] != 'C16-KF1' or tag != 'loud':
        return False
    try:
        j = json.loads(msg.split(' || ')[0])
    except Exception:
        return False
    dmg, o = j['damage'], j['outcome']
    return (dmg.get('field') == 'text_end' and dmg['value'] > j['true_text_end'] and o['matrix_equal']
            and not o['missing'] and set(o['changed']) <= {j['last_key']} and o['analysis_equal'])


def check(case, obs):
    spec = case['spec']
    path = os.path.join(workdir(), 'c16.fcs')
    buf, info = fcsgen.write(path, c01_write_spec(spec))
    exp = expected_bits(spec)
    exp_text = dict(info['pairs'])
    exp_text.update(dict(spec.get('stext') or []))
    exp_an = dict(spec.get('analysis') or [])
    if spec.get('stext'):
        obs.label('stext_after_data' if spec.get('stext_after') else 'stext_before_data')
    d0 = load(path)
    if not obs.claim('intact_loads', d0 is not None and same_as(d0, exp, exp_text, exp_an, None)[0],
                     'the intact file does not load to the written events/keywords'):
        return
    obs.nontrivial = True
    last_key = info['pairs'][-1][0]
    only = case.get('only')
    dpath = os.path.join(workdir(), 'c16d.fcs')

    def report(dmg, outcome, exp_text_d):
        head = json.dumps(dict(damage=dmg, outcome=outcome, true_text_end=info['text_end'], last_key=last_key),
                          sort_keys=True)
        obs.fail('loud', head + ' || damaged file loaded with other data: %r -> %r' % (dmg, outcome))

    # ---------------------------------------------------------------- truncation at every byte
    cuts = range(len(buf)) if only is None else ([only['at']] if only['kind'] == 'truncate' else [])
    n_data_cuts = 0
    for k in cuts:
        with open(dpath, 'wb') as f:
            f.write(buf[:k])
        d = load(dpath)
        obs.claims['loud'] += 1
        if k > info['text_begin']:
            n_data_cuts += 1
        if d is None:
            continue
        ok, outcome = same_as(d, exp, exp_text, exp_an, None)
        if not ok:
            report(dict(kind='truncate', at=k, of=len(buf)), outcome, exp_text)
    obs.label('cuts_beyond_header:%s' % ('yes' if n_data_cuts else 'no'))

    # ---------------------------------------------------------------- single-field corruptions
    dmgs = damages(spec, info) if only is None else ([only] if only['kind'] == 'field' else [])
    for dmg in dmgs:
        if ambiguous(spec, info, dmg):
            obs.exclude('ambiguous_extent')
            continue
        s2 = damaged_spec(spec, dmg)
        try:
            _, info2 = fcsgen.write(dpath, c01_write_spec(s2))
        except (AssertionError, ValueError, OverflowError):
            obs.exclude('unprintable_corruption')
            continue
        d = load(dpath)
        obs.claims['loud'] += 1
        obs.label('field:' + (dmg['field'] if not dmg['field'].startswith('$P') or dmg['field'] == '$PAR' else '$PnB'))
        if d is None:
            continue
        exp_text_d = dict(info2['pairs'])
        exp_text_d.update(dict(spec.get('stext') or []))
        ok, outcome = same_as(d, exp, exp_text_d, exp_an, None)
        if not ok:
            report(dmg, outcome, exp_text_d)


def c01_write_spec(spec):
    return spec
