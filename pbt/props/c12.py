"""C12 -- summary statistics equal their definitions for any container and channel form."""
import math

import numpy as np
from hypothesis import strategies as st

from pbt.props.c03 import _spell
from pbt.samples import call, raised, build, sample_spec, expand

ID = 'C12'
LEVEL = 'exploration'
RULE = ('Hypothesis draws an event matrix (1..200 events, 1..5 channels; uint8/16/32 big- or little-endian as '
        'the reader produces them, float32, float64; per-column kinds uniform / heavy ties / constant / '
        'sorted), a container (raw sample, sample converted to RFI, to RFI then MEF; each also as the plain array) and a '
        'channel form (absent, position, name, mixed list in drawn order, single-element list); all ten '
        'statistics are evaluated and compared with pure-Python textbook definitions.  Non-trivial = float '
        '(converted) sample, or a list of >=2 channels in non-file order, or a tie in the mode.')
ASSUMPTIONS = ['reference definitions in pbt/props/c12.py (math.fsum mean, population SD, linear-interpolation '
               'percentiles)',
               'tolerance follows the floating type NumPy computes in: 1e-9 for float64, 2e-4 for float32 '
               '($DATATYPE F samples and log of uint16), 2e-2 for float16 (log of uint8); container and '
               'channel-form agreement are exact']
BUDGET = {
    'quick': dict(examples=1600, time_s=240),
    'thorough': dict(examples=60000, time_s=1500, fuzz=dict(workers=8, runs=6000, max_s=300)),
}

STATS = ['mean', 'gmean', 'median', 'mode', 'std', 'cv', 'gstd', 'gcv', 'iqr', 'rcv']
GEOM = ('gmean', 'gstd', 'gcv')


@st.composite
def _case(draw):
    spec = draw(sample_spec(min_d=1, max_d=5, min_n=1, max_n=200, datatypes=('I', 'I', 'I', 'F', 'D'),
                            int_widths=(8, 16, 16, 32)))
    D = len(spec['widths'])
    spec['col_kind'] = [draw(st.sampled_from(['uniform', 'uniform', 'small', 'const', 'ramp'])) for _ in range(D)]
    if spec['datatype'] == 'I' and D >= 2 and draw(st.integers(0, 5)) == 0:
        spec['col_kind'] = ['stair'] * D        # neighbouring channels share an extreme value (ties across channels)
    if draw(st.booleans()):
        spec['n'] = draw(st.integers(1, 6))
    spec['vmin'] = draw(st.sampled_from([0, 1, 1]))
    if spec['vmin'] == 0 and spec['datatype'] == 'I' and spec['n'] >= 2 and draw(st.booleans()):
        # both ends of the representable range occur (0 and the largest value of the width)
        top = min(spec['ranges'][0], 2 ** spec['widths'][0]) - 1
        spec['ranges'] = [2 ** spec['widths'][0] if spec['widths'][0] <= 16 else r for r in spec['ranges']]
        ctop = draw(st.integers(0, D - 1))
        spec['specials'] = [[0, draw(st.integers(0, D - 1)), 0],
                            [1, ctop, min(spec['ranges'][ctop], 2 ** spec['widths'][ctop]) - 1]]
    if draw(st.integers(0, 7)) == 0:
        spec['names'] = [str(D - j) for j in range(D)]          # names that are numerals: '3', '2', '1' (not their positions)
    form = draw(st.sampled_from(['absent', 'pos', 'neg', 'name', 'list', 'list', 'list1']))
    if form == 'list':
        sel = draw(st.lists(st.integers(0, D - 1), min_size=1, max_size=D, unique=True))
    elif form == 'absent':
        sel = list(range(D))
    else:
        sel = [draw(st.integers(0, D - 1))]
    if form == 'list' and draw(st.sampled_from([True, False, False, False])):
        sel = sel + [draw(st.sampled_from(sel))]           # a channel may be asked for twice: two (equal) answers
    spell = [draw(st.sampled_from(['name', 'pos', 'neg'])) for _ in sel]
    if form == 'list' and D >= 2 and draw(st.sampled_from([True, False, False])):
        # a run of neighbouring columns in one spelling: [1, 2, 3], [-2, -1], or running over the end, [-1, 0]
        L = draw(st.integers(2, D))
        start = draw(st.integers(0, D - 1))
        sel = [(start + i) % D for i in range(L)]
        how = draw(st.sampled_from(['pos', 'neg', 'cross']))
        spell = [('neg' if (how == 'neg' or (how == 'cross' and start + i < D)) else 'pos') for i in range(L)]
    return dict(spec=spec, container=draw(st.sampled_from(['raw', 'raw', 'rfi', 'mef'])), form=form, sel=sel,
                presliced=draw(st.sampled_from([None, None, 'slice', 'list'])), cut=draw(st.integers(0, 4)),
                iterator=draw(st.sampled_from([None, None, None, 'iter', 'generator'])),
                spell=spell)


def strategy(tier):
    return _case()


def known_match(entry, case, tag, msg):
    # C12-KF1: geometric statistics of 8-bit integer samples are computed in half precision
    sp = case['spec']
    return (entry['id'] == 'C12-KF1' and tag == 'definition_f16' and sp['datatype'] == 'I'
            and sp['widths'][0] == 8 and case['container'] == 'raw')


def _div(a, b):
    try:
        return a / b
    except ZeroDivisionError:
        return float('nan') if a == 0 or a != a else math.copysign(float('inf'), a)


def _pct(sorted_v, q):
    n = len(sorted_v)
    pos = (n - 1) * q / 100.0
    lo = int(math.floor(pos))
    hi = min(lo + 1, n - 1)
    frac = pos - lo
    return sorted_v[lo] + (sorted_v[hi] - sorted_v[lo]) * frac


def reference(v):
    """Textbook definitions from a list of Python numbers."""
    n = len(v)
    fv = [float(x) for x in v]
    mean = math.fsum(fv) / n
    sd = math.sqrt(math.fsum((x - mean) ** 2 for x in fv) / n)
    sv = sorted(fv)
    med = sv[n // 2] if n % 2 else 0.5 * (sv[n // 2 - 1] + sv[n // 2])
    iqr = _pct(sv, 75) - _pct(sv, 25)
    out = dict(mean=mean, std=sd, median=med, iqr=iqr, cv=_div(sd, mean), rcv=_div(iqr, med))
    if all(x > 0 for x in fv):
        lg = [math.log(x) for x in fv]
        lm = math.fsum(lg) / n
        lsd = math.sqrt(math.fsum((x - lm) ** 2 for x in lg) / n)
        out.update(gmean=math.exp(lm), gstd=math.exp(lsd), gcv=math.sqrt(max(0.0, math.exp(lsd ** 2) - 1)))
    counts = {}
    for x in fv:
        counts[x] = counts.get(x, 0) + 1
    out['mode_counts'] = counts
    return out


def _close(got, ref, rtol, scale):
    got = float(got)
    if ref != ref:
        return got != got
    if math.isinf(ref):
        return got == ref
    return abs(got - ref) <= rtol * (abs(ref) + scale)


def _agree(a, b, tol, scale):
    a = float(a)
    b = float(b)
    if a != a or b != b:
        return a != a and b != b
    if math.isinf(a) or math.isinf(b):
        return a == b
    return abs(a - b) <= tol * (abs(a) + abs(b) + scale)


def _same(a, b):
    a = np.asarray(a)
    b = np.asarray(b)
    return a.shape == b.shape and bool(np.array_equal(a, b, equal_nan=True))


def check(case, obs):
    import FlowCal.stats
    import FlowCal.transform
    spec = case['spec']
    D = len(spec['widths'])
    d = build(spec)
    if case['container'] in ('rfi', 'mef'):
        x = FlowCal.transform.to_rfi(d)
        if case['container'] == 'mef':
            x = FlowCal.transform.to_mef(x, [0], [lambda v: 2.5 * np.sign(v) * np.abs(v) ** 1.1], [0])
        cells = [[float(c) for c in row] for row in np.asarray(x).tolist()]
        ftype = 'f8'
    else:
        x = d
        cells = expand(spec)
        ftype = {'I': 'int', 'F': 'f4', 'D': 'f8'}[spec['datatype']]
    pre = case.get('presliced')
    if pre and D >= 2:
        # the sample under test is a channel sub-selection of a parent that has already been asked by name
        lo = 1 + case.get('cut', 0) % (D - 1)
        for nm in x.channels:
            x[:1, nm]
            x.range(nm)
        x = x[:, lo:] if pre == 'slice' else x[:, list(range(lo, D))]
        cells = [row[lo:] for row in cells]
        D = D - lo
        case = dict(case, sel=[j % D for j in case['sel']][:D] or [0])
        if case['form'] in ('list',):
            case['sel'] = list(dict.fromkeys(case['sel']))
        if case['form'] == 'absent':
            case['sel'] = list(range(D))
        case['spell'] = (list(case['spell']) + ['name'] * D)[:len(case['sel'])]
        obs.label('presliced:' + pre)
    arr = np.asarray(x)
    names = list(x.channels)
    sel, form = case['sel'], case['form']
    if form == 'absent':
        ch_arg = None
    elif form == 'pos':
        ch_arg = sel[0]
    elif form == 'neg':
        ch_arg = sel[0] - D
    elif form == 'name':
        ch_arg = names[sel[0]]
    else:
        ch_arg = [_spell(j, sp, names, False) for j, sp in zip(sel, case['spell'])]
        if case.get('cut', 0) % 3 == 1:
            ch_arg = tuple(ch_arg)               # a tuple of channels is a sequence like a list
    is_list = form in ('absent', 'list', 'list1')
    cols = [[row[j] for row in cells] for j in range(D)]
    refs = [reference(c) for c in cols]
    width = spec['widths'][0]
    obs.label('container:' + case['container'], 'dtype:%s%d' % (spec['datatype'], width), 'form:' + form)
    mode_tie = any(sorted(r['mode_counts'].values())[-2:].count(max(r['mode_counts'].values())) == 2
                   for r in refs if len(r['mode_counts']) > 1)
    if mode_tie:
        obs.label('mode_tie')
    obs.nontrivial = (case['container'] in ('rfi', 'mef') or (form == 'list' and len(sel) >= 2 and sel != sorted(sel))
                      or mode_tie)
    from pbt.samples import fingerprint as _fp, fp_diff as _fpd
    fp_before = _fp(x)
    for stat in STATS:
        fn = getattr(FlowCal.stats, stat)
        if stat in GEOM and not all('gmean' in refs[j] for j in range(D)):
            obs.exclude('geometric_on_nonpositive')
            continue
        # tolerance by the floating type NumPy computes in
        if ftype == 'f8' or (ftype == 'int' and (stat not in GEOM or width >= 32)):
            rtol = 1e-9
        elif ftype == 'f4' or (ftype == 'int' and width == 16):
            rtol = 2e-4
        else:
            rtol = 2e-2
        # agreement between spellings/containers: same numbers up to summation-order rounding
        etol = 1e-12 if rtol == 1e-9 else rtol / 10.0
        if rtol == 2e-2 and stat in GEOM:
            etol = 0.25        # half-precision logs (C12-KF1): summation order alone moves gstd by several per cent
        ch_call = ch_arg
        if is_list and form != 'absent' and case.get('iterator'):
            # a one-shot iterable of channels is a legal sequence for a sample (each call gets a fresh one)
            ch_call = iter(list(ch_arg)) if case['iterator'] == 'iter' else (c_ for c_ in list(ch_arg))
        got_s = call(fn, x, ch_call)
        if not obs.claim('no_raise', not raised(got_s), lambda: '%s(sample, %r) raised %r' % (stat, ch_arg, got_s)):
            continue
        vals = np.atleast_1d(np.asarray(got_s))
        if not obs.claim('channel_form', (np.ndim(got_s) == 1) == is_list and vals.shape[0] == len(sel),
                         lambda: '%s(sample, %r): result shape %r for %d channels' % (stat, ch_arg, np.shape(got_s), len(sel))):
            continue
        for i, j in enumerate(sel):
            r = refs[j]
            col = cols[j]
            scale = max(abs(float(c)) for c in col)
            g = float(vals[i])
            if stat == 'mode':
                cnt = r['mode_counts']
                obs.claim('definition', cnt.get(g, 0) == max(cnt.values()),
                          lambda: 'mode of channel %d = %r occurs %d times, max count %d' % (j, g, cnt.get(g, 0), max(cnt.values())))
            elif stat in ('cv', 'rcv'):
                # ill-conditioned when the denominator is tiny relative to the data: definition only when safe
                den = r['mean'] if stat == 'cv' else r['median']
                if abs(den) > 1e-3 * scale or den == 0:
                    obs.claim('definition', _close(g, r[stat], rtol * 10, 0.0 if den != 0 else 0.0) or
                              (den != 0 and _close(g * den, r[stat] * den, rtol * 10, scale)),
                              lambda: '%s of channel %d: got %r, definition %r (n=%d)' % (stat, j, g, r[stat], len(col)))
            elif stat in GEOM:
                # geometric statistics: the error is absolute on the log scale (NumPy takes the log of
                # uint16 data in float32 and of uint8 data in float16 -- the latter is known finding C12-KF1)
                f16 = rtol == 2e-2
                ltol = 1e-9 if rtol == 1e-9 else 2e-4
                if stat == 'gcv':
                    dev = abs(g - r[stat]) / (abs(r[stat]) + 1.0)
                else:
                    dev = abs(math.log(g) - math.log(r[stat])) / (1.0 + abs(math.log(r[stat]))) if g > 0 else float('inf')
                if f16:
                    obs.label('float16_log')
                    tag = 'definition' if (dev > 0.25 or dev != dev) else 'definition_f16'
                    obs.claim(tag, dev <= 2e-3,
                              lambda: '%s of channel %d: got %r, definition %r (n=%d, dtype %s, log taken in float16)' % (
                                  stat, j, g, r[stat], len(col), arr.dtype))
                else:
                    obs.claim('definition', dev <= ltol,
                              lambda: '%s of channel %d: got %r, definition %r (n=%d, dtype %s)' % (stat, j, g, r[stat], len(col), arr.dtype))
            else:
                obs.claim('definition', _close(g, r[stat], rtol, scale if stat in ('std', 'iqr', 'mean', 'median') else 0.0),
                          lambda: '%s of channel %d: got %r, definition %r (n=%d, dtype %s)' % (stat, j, g, r[stat], len(col), arr.dtype))
            # single-channel spellings agree with the list entry (same values; summation order may differ
            # between a strided column and a contiguous one, hence the floating type's rounding tolerance)
            for single in (j, names[j], j - D):
                gs = call(fn, x, single)
                obs.claim('channel_form', not raised(gs) and np.ndim(gs) == 0 and _agree(gs, vals[i], etol, scale),
                          lambda: '%s(sample, %r) = %r but list entry is %r' % (stat, single, gs, vals[i]))
        # container: plain array gives the same numbers
        got_a = call(fn, arr, [int(j) for j in sel] if is_list else int(sel[0]))
        obs.claim('container', not raised(got_a) and np.shape(got_a) == np.shape(got_s) and
                  all(_agree(a_, b_, etol, max(abs(float(c)) for c in cols[j])) for a_, b_, j in
                      zip(np.atleast_1d(np.asarray(got_a)), vals, sel)),
                  lambda: '%s: plain array gives %r, sample gives %r' % (stat, got_a, got_s))
    obs.claim('input_intact', not _fpd(fp_before, _fp(x)), lambda: 'a statistic changed its input: %r' % _fpd(fp_before, _fp(x)))
    # identities between the library's own results (all channels)
    res = {}
    for stat in STATS:
        if stat in GEOM and not all('gmean' in refs[j] for j in range(D)):
            continue
        v = call(getattr(FlowCal.stats, stat), x)
        if raised(v):
            return
        res[stat] = np.asarray(v, dtype=float)
    itol = 1e-9 if ftype != 'f4' else 1e-5
    with np.errstate(all='ignore'):
        obs.claim('identities', bool(np.allclose(res['cv'], res['std'] / res['mean'], rtol=itol, atol=0, equal_nan=True)),
                  'CV != SD/mean')
        obs.claim('identities', bool(np.allclose(res['rcv'], res['iqr'] / res['median'], rtol=itol, atol=0, equal_nan=True)),
                  'RCV != IQR/median')
        if 'gstd' in res:
            gt = 1e-6 if (ftype in ('f8',) or (ftype == 'int' and width >= 32)) else (
                2e-3 if (ftype == 'f4' or width == 16) else 1e-1)
            obs.claim('identities', bool(np.allclose(res['gcv'], np.sqrt(np.exp(np.log(res['gstd']) ** 2) - 1),
                                                     rtol=gt, atol=gt, equal_nan=True)),
                      'GCV != sqrt(exp(ln(GSD)^2)-1)')
    # 64-bit integers beyond 2**53 (where neighbouring integers share one double): the mode is still one of the most
    # frequent values, counted exactly
    if ftype == 'int' and len(cols[0]) >= 2:
        for dt, base in ((np.int64, 2 ** 53), (np.uint64, 2 ** 63 + 2 ** 53)):
            wide = np.array([[base + (int(v) % 5) for v in row] for row in cells], dtype=dt)
            gm = call(FlowCal.stats.mode, wide)
            okm = not raised(gm) and np.shape(gm) == (wide.shape[1],)
            if okm:
                for j in range(wide.shape[1]):
                    cnt = {}
                    for v in wide[:, j].tolist():
                        cnt[v] = cnt.get(v, 0) + 1
                    okm = okm and cnt.get(int(gm[j]), 0) == max(cnt.values())
            obs.claim('definition', okm, lambda: 'mode of %s values around %d: %r is not a most frequent value of its channel' % (
                np.dtype(dt).name, base, gm))
        obs.label('wide_integers')
    # the statistics describe the values the container holds *now*: overwrite one requested channel in place (with the
    # values of its neighbour) and ask again with the same channel list on the same objects
    if form in ('list', 'list1') and D >= 2 and not case.get('iterator'):
        j0 = sel[0]
        j1 = (j0 + 1) % D
        original = np.asarray(x)[:, j0].copy()
        refs2 = list(refs)
        refs2[j0] = refs[j1]
        cols2 = list(cols)
        cols2[j0] = cols[j1]
        obs.label('edited_in_place')
        rtol = 1e-9 if (ftype == 'f8' or ftype == 'int') else 2e-4
        # (first the sample: ask, overwrite, ask again; then the plain array: ask, restore the column, ask again)
        for who, holder, chs, newcol, refs2, cols2 in (('sample', x, ch_arg, np.asarray(x)[:, j1].copy(), refs2, cols2),
                                                       ('plain array', arr, [int(j) for j in sel], original, refs, cols)):
            call(FlowCal.stats.mean, holder, chs)
            x[:, j0] = newcol
            for stat in ('mean', 'median', 'std', 'iqr'):
                fn = getattr(FlowCal.stats, stat)
                got = call(fn, holder, chs)
                if not obs.claim('definition', not raised(got) and np.shape(got) == (len(sel),),
                                 lambda: '%s(%s, %r) after an in-place edit: %r' % (stat, who, ch_arg, got)):
                    continue
                for i, j in enumerate(sel):
                    scale = max(abs(float(c)) for c in cols2[j])
                    obs.claim('definition', _close(float(got[i]), refs2[j][stat], rtol, scale),
                              lambda: '%s of channel %d (%s) after channel %d was overwritten in place: got %r, definition %r' % (
                                  stat, j, who, j0, float(got[i]), refs2[j][stat]))
