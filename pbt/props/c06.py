"""C06 -- MEF conversion applies each channel's own standard curve, or refuses."""
import numpy as np
from hypothesis import strategies as st

from pbt.props.c03 import base_sample
from pbt.samples import derived_from_used_parent, call, raised, build, expand, fingerprint, fp_diff

ID = 'C06'
LEVEL = 'exploration'
ENGINES = ['hypothesis', 'curated large sample']
RULE = ('Hypothesis draws a sample or plain array (1..6 channels), k distinct curves x -> c_i*sign(x)*|x|^p_i, a '
        'duplicate-free list of k curve channels in drawn order (names/positions mixed, or the default "all '
        'channels"), a request (subset, order, spelling; scalar; None), a permutation of the (curve, channel) '
        'pairs; an error arm (a requested channel without curve, different numbers of curves and channels); and '
        'the callable returned by get_transform_fxn driven with stub clustering/fitting functions that return '
        'known curves.  Non-trivial = k>=2 and the curve-channel order differs from the request order, or mixed '
        'spellings.')
ASSUMPTIONS = ['curves are evaluated by the oracle in Python floats (rel. 1e-12)',
               'range limits are compared only between equivalent calls (C07 owns their values)']
BUDGET = {
    'quick': dict(examples=2400, time_s=300),
    'thorough': dict(examples=100000, time_s=1800, fuzz=dict(workers=8, runs=6000, max_s=300)),
}


@st.composite
def _case(draw):
    spec, _, _ = draw(base_sample())
    if draw(st.sampled_from([False] * 5 + [True])):
        spec['n'] = 0                                       # an empty sample is a sample
        spec['specials'] = []
    D = len(spec['widths'])
    container = draw(st.sampled_from(['sample', 'sample', 'sample', 'array', 'array', 'array_signed']))
    if container == 'array_signed' and spec['datatype'] == 'I':
        # a signed integer array of few distinct small readings, every other event negative
        spec['col_kind'] = ['small'] * len(spec['widths'])
        spec['n'] = max(spec['n'], 12)
        spec['specials'] = []
    default_sc = draw(st.integers(0, 5)) == 0
    if default_sc:
        sc = list(range(D))
    else:
        sc = draw(st.lists(st.integers(0, D - 1), min_size=1, max_size=D, unique=True))
    k = len(sc)
    cs = draw(st.lists(st.floats(0.5, 50.0), min_size=k, max_size=k, unique=True))
    ps = draw(st.lists(st.floats(0.8, 1.3), min_size=k, max_size=k, unique=True))
    form = draw(st.sampled_from(['list', 'list', 'scalar', 'none']))
    if form == 'none':
        req = list(sc)
    elif form == 'scalar':
        req = [draw(st.sampled_from(sc))]
    else:
        req = draw(st.lists(st.sampled_from(sc), min_size=0, max_size=k, unique=True))       # incl. the empty request
        if req and draw(st.sampled_from([False, False, True])):
            req = req + [draw(st.sampled_from(req))]          # a channel may be named twice: it is converted once
    curve_kind = draw(st.sampled_from(['power', 'power', 'power', 'tanh', 'affine', 'poly1d', 'partial']))
    if draw(st.integers(0, 7)) == 0:
        # channel names may be numerals: '3', '2', '1' (the name '1' is then not position 1)
        spec['names'] = [str(len(spec['widths']) - j) for j in range(len(spec['widths']))]
    if spec['datatype'] == 'F' and spec['n'] > 0 and draw(st.sampled_from([True, False, False])):
        # floating-point files can hold infinite and not-a-number readings; a curve is applied to them like to any other
        spec['specials'] = list(spec.get('specials') or []) + [[draw(st.integers(0, spec['n'] - 1)), draw(st.integers(0, D - 1)),
                                                                 draw(st.sampled_from([float('inf'), float('-inf'), float('nan')]))]
                                                                for _ in range(draw(st.integers(1, 3)))]
    err = draw(st.sampled_from([None] * 12 + ['uncovered', 'uncovered', 'len_mismatch']))
    uncovered = [j for j in range(D) if j not in sc]
    if err == 'uncovered' and not uncovered:
        err = 'len_mismatch'
    return dict(curve_kind=curve_kind, spec=spec, container=container, default_sc=default_sc, sc=sc, sc_spell=[draw(st.booleans()) for _ in sc],
                curves=[[c, p] for c, p in zip(cs, ps)], form=form, req=req, req_spell=[draw(st.sampled_from(['name', 'pos', 'neg', 'name', 'pos'])) for _ in req],
                perm_seed=draw(st.integers(0, 2 ** 16)), err=err, seq=draw(st.sampled_from(['list', 'list', 'tuple'])), derived=draw(st.sampled_from([None, None, None, ['slice', 1], ['slice', 2], ['list', 1], ['perm', 1], ['permname', 2]])), via_get_transform=draw(st.integers(0, 3)) == 0,
                to_rfi_first=draw(st.booleans()))


def strategy(tier):
    return _case()


# a sample with more events than any generated one (and than 2**16), so that conversion in blocks of events is
# exercised beyond the first block
def curated():
    spec = dict(version='FCS3.0', datatype='I', byteord='1,2,3,4', widths=[16, 16, 16], ranges=[1024, 1024, 65536],
                names=['FSC-H', 'FL1-H', 'FL2-H'], pne=['0,0', '0,0', '0,0'], png=[None, None, None], pnv=[None] * 3, pns=[None] * 3,
                n=70001, data_seed=5)
    base = dict(spec=spec, container='sample', default_sc=False, sc=[1, 2], sc_spell=[True, False], curves=[[2.0, 1.1], [0.5, 0.9]],
                form='list', req=[2, 1], req_spell=['name', 'pos'], perm_seed=3, err=None, seq='list', derived=None,
                via_get_transform=False, to_rfi_first=False)
    return [base, dict(base, container='array', req=[1], req_spell=['pos'], form='scalar'),
            # an exact multiple of a round block size
            dict(base, spec=dict(spec, n=100000, data_seed=6)), dict(base, spec=dict(spec, n=131072, data_seed=7), container='array')]


def exhaustive_jobs(tier):
    return curated()


def run_job(job):
    from pbt.runner import Obs
    obs = Obs()
    try:
        check(job, obs)
    except Exception as e:
        obs.failures.append(('crash', 'curated large sample: %s: %s' % (type(e).__name__, e)))
    return dict(evaluations=1, nontrivial=1, failures=[(t, m, job) for t, m in obs.failures[:5]],
                labels={'curated:%d_events' % job['spec']['n']: 1}, claims=dict(obs.claims), samples=[], complete=True)


def _power(x, c, p):
    return c * np.sign(x) * np.abs(x) ** p


def _curve(c, p, kind='power'):
    if kind == 'tanh':          # a saturating curve: maps an infinite reading to a finite value
        return lambda x: c * np.tanh(np.asarray(x, dtype=float) * (p / 500.0))
    if kind == 'affine':
        return lambda x: c * np.asarray(x, dtype=float) + p
    # curves need not be plain functions: any callable object will do
    if kind == 'poly1d':
        return np.poly1d([c, p])                       # c*x + p
    if kind == 'partial':
        import functools
        return functools.partial(_power, c=c, p=p)
    return lambda x: c * np.sign(x) * np.abs(x) ** p


def check(case, obs):
    import FlowCal.transform as tr
    import FlowCal.mef
    spec = case['spec']
    D = len(spec['widths'])
    d = build(spec) if not case.get('derived') else derived_from_used_parent(spec, case['derived'][1], case['derived'][0])
    names = list(d.channels)
    is_array = case['container'] in ('array', 'array_signed')
    if case['to_rfi_first'] and not is_array:
        d = tr.to_rfi(d)
    data = d
    if is_array:
        data = np.asarray(d)
        data = data.astype(data.dtype.newbyteorder('=')).copy()
        if case['container'] == 'array_signed' and data.dtype.kind in 'ui':
            data = data.astype(np.int64)
            data[1::2] = -data[1::2]
    sc, req = case['sc'], case['req']
    k = len(sc)
    from pbt.props.c03 import _spell
    sp = lambda j, how: _spell(j, how, names, is_array)
    sc_ch = [sp(j, s) for j, s in zip(sc, case['sc_spell'])]
    req_ch = [sp(j, s) for j, s in zip(req, case['req_spell'])]
    ckind = case.get('curve_kind', 'power')
    curves = [_curve(c, p, ckind) for c, p in case['curves']]
    obs.label('curve:' + ckind)
    form = case['form']
    ch_arg = None if form == 'none' else (req_ch[0] if form == 'scalar' else req_ch)
    sc_arg = None if case['default_sc'] else sc_ch
    if case.get('seq') == 'tuple':               # tuples are sequences like lists
        ch_arg = tuple(ch_arg) if isinstance(ch_arg, list) else ch_arg
        sc_arg = tuple(sc_arg) if isinstance(sc_arg, list) else sc_arg
        curves_arg = tuple(curves)
    else:
        curves_arg = curves
    obs.label('container:' + case['container'], 'form:' + form, 'default_sc' if case['default_sc'] else 'explicit_sc')

    if case['err'] is not None:
        obs.label('error_arm')
        obs.nontrivial = True
        if case['err'] == 'uncovered':
            unc = [j for j in range(D) if j not in sc][0]
            bad = req_ch + [sp(unc, (case['req_spell'] or ['name'])[0])]
            out = call(tr.to_mef, data, bad, curves, sc_ch)
            out2 = call(tr.to_mef, data, sp(unc, True), curves, sc_ch)
            obs.claim('refuse', raised(out) and raised(out2), 'a channel without standard curve was passed through')
            # ... every uncovered channel, asked for alone by name and by position (names and position numbers may be
            # contained in those of covered channels: 'FL1' in 'FL1-H', 1 in 10)
            for u in [j for j in range(D) if j not in sc]:
                for by_name in (True, False):
                    o = call(tr.to_mef, data, sp(u, by_name), curves, sc_ch)
                    obs.claim('refuse', raised(o), lambda: 'channel %r has no standard curve (curves for %r) but the request was accepted' % (sp(u, by_name), sc_ch))
        else:
            out = call(tr.to_mef, data, req_ch, curves + [curves[0]], sc_ch)
            out2 = call(tr.to_mef, data, req_ch, curves[:-1], sc_ch) if k > 0 else out
            obs.claim('refuse', raised(out) and raised(out2), 'different numbers of curves and channels accepted')
            # ... also when the curve channels are left to the default (all channels)
            allc = [_curve(1.0 + 0.1 * i, 1.0) for i in range(D + 1)]
            out3 = call(tr.to_mef, data, None, allc, None)
            out4 = call(tr.to_mef, data, None, allc[:D - 1], None) if D > 1 else out3
            obs.claim('refuse', raised(out3) and raised(out4), lambda: 'with default curve channels, %d or %d curves for %d channels were accepted' % (D + 1, D - 1, D))
        return

    before = fingerprint(data)
    out = call(tr.to_mef, data, ch_arg, curves_arg, sc_arg)
    obs.claim('input_intact', not fp_diff(before, fingerprint(data)), 'to_mef changed its argument')
    if any(s_ == 'neg' for s_ in case['req_spell']) and form != 'none':
        # a position counted from the end: the statement allows converting it with its own curve or refusing it,
        # never passing it through unconverted (checked below by `paired`)
        obs.label('negative_position')
        if raised(out):
            obs.claims['refuse'] += 1
            return
    if not obs.claim('returns', not raised(out), lambda: 'to_mef(%r, sc_channels=%r) raised %r' % (ch_arg, sc_arg, out)):
        return
    x = np.asarray(data, dtype=np.float64)
    res = np.asarray(out)
    if not obs.claim('shape_meta', res.shape == x.shape and res.dtype == np.float64, 'shape/dtype changed'):
        return
    for j in range(D):
        if j in req:
            c, p = case['curves'][sc.index(j)]
            if ckind == 'power' and bool(np.all(np.isfinite(x[:, j]))):
                exp = np.array([c * (1.0 if v > 0 else (-1.0 if v < 0 else 0.0)) * abs(float(v)) ** p for v in x[:, j]])
            else:
                # the curve applied to each reading on its own (also to infinite and not-a-number readings)
                with np.errstate(all='ignore'):
                    exp = np.array([float(curves[sc.index(j)](np.float64(v))) for v in x[:, j]])
            obs.claim('paired', bool(np.all((np.abs(res[:, j] - exp) <= 1e-12 * np.abs(exp)) | (res[:, j] == exp) | (np.isnan(res[:, j]) & np.isnan(exp)))),
                      lambda: 'channel %d (%s) was not converted with its own curve (c=%r, p=%r)' % (j, names[j], c, p))
        else:
            obs.claim('others', bool(np.array_equal(res[:, j], x[:, j], equal_nan=True)), lambda: 'unrequested channel %d changed' % j)
    if not is_array:
        same = [f for f in fp_diff(fingerprint(d), fingerprint(out)) if f not in ('data', 'range', 'kind', 'itemsize')]
        obs.claim('shape_meta', not same and type(out) is type(d), lambda: 'metadata changed by to_mef: %r' % same)
        for j in range(D):
            if j not in req:
                obs.claim('others', list(out.range(j)) == list(d.range(j)), lambda: 'range of unrequested channel %d changed' % j)
    order_differs = [j for j in sc if j in req] != req
    mixed = len(set(case['sc_spell'])) == 2 or len(set(case['req_spell'])) == 2
    obs.nontrivial = k >= 2 and (order_differs or (mixed and not is_array))

    def same_result(o, what):
        ok = (not raised(o) and np.asarray(o).shape == res.shape and np.array_equal(np.asarray(o), res, equal_nan=True)
              and (is_array or [list(r) for r in o.range()] == [list(r) for r in out.range()]))
        obs.claim('perm', ok, lambda: '%s differs (%r)' % (what, o if raised(o) else ''))

    perm = [int(i) for i in np.random.Generator(np.random.PCG64(case['perm_seed'])).permutation(k)]
    same_result(call(tr.to_mef, data, ch_arg, [curves[i] for i in perm], [sc_ch[i] for i in perm]),
                'permuting the (curve, channel) pairs together')
    if not is_array:
        same_result(call(tr.to_mef, data, None if form == 'none' else ([names[j] for j in req] if form != 'scalar' else names[req[0]]),
                         curves, [int(j) for j in sc]), 'switching spellings (request by name, curves by position)')
        same_result(call(tr.to_mef, data, None if form == 'none' else ([int(j) for j in req] if form != 'scalar' else int(req[0])),
                         curves, [names[j] for j in sc]), 'switching spellings (request by position, curves by name)')
    if form == 'list' and len(req) > 1:
        same_result(call(tr.to_mef, data, list(reversed(req_ch)), curves, sc_arg), 'reversing the request')

    # ---------------------------------------------------------------- callable returned by get_transform_fxn
    if case['via_get_transform'] and not is_array and d.shape[0] >= 2:
        obs.label('via_get_transform_fxn')
        n_clusters = 2
        it = iter(range(10 ** 6))

        def clustering(data_, n, **kw):
            return np.arange(data_.shape[0]) % n

        def fitting(rfi, mef, **kw):
            i = next(it)
            return (curves[i], curves[i], np.array([case['curves'][i][1], 0.0, 0.0]), 'stub', ['m', 'b', 'a'])
        f = call(FlowCal.mef.get_transform_fxn, d, [[1.0, 2.0]] * k, mef_channels=sc_ch, clustering_fxn=clustering,
                 clustering_channels=[sc_ch[0]], selection_fxn=None, fitting_fxn=fitting)
        if obs.claim('partial', not raised(f), lambda: 'get_transform_fxn with stubs raised %r' % (f,)):
            o = call(f, data, ch_arg if ch_arg is not None else sc_ch)
            same_result(o, 'the callable returned by get_transform_fxn')
            # a calibration made later (other curves) must not change the callable returned earlier
            other = [_curve(c * 7.0 + 1.0, 2.0 - p) for c, p in case['curves']]
            it2 = iter(range(10 ** 6))
            call(FlowCal.mef.get_transform_fxn, d, [[1.0, 2.0]] * k, mef_channels=sc_ch, clustering_fxn=clustering,
                 clustering_channels=[sc_ch[0]], selection_fxn=None,
                 fitting_fxn=lambda rfi, mef, **kw: (other[next(it2)], None, np.zeros(3), 'stub', ['m', 'b', 'a']))
            same_result(call(f, data, ch_arg if ch_arg is not None else sc_ch),
                        'the callable returned by get_transform_fxn, after a later calibration,')
            if [j for j in range(D) if j not in sc]:
                unc = [j for j in range(D) if j not in sc][0]
                obs.claim('refuse', raised(call(f, data, names[unc])), 'returned callable converted a channel without curve')
            # the calibration is by channel NAME: applied to a sample whose columns are laid out differently from the
            # bead file's, each named channel still gets its own curve
            if all(isinstance(c_, str) for c_ in sc_ch) and req and D >= 2:
                rev = d[:, list(range(D))[::-1]]
                o2 = call(f, rev, [names[j] for j in req])
                ok2 = not raised(o2) and np.asarray(o2).shape == x.shape
                if ok2:
                    r2 = np.asarray(o2)
                    for j in range(D):
                        colv = r2[:, D - 1 - j]
                        if j in req:
                            with np.errstate(all='ignore'):
                                exp = np.asarray(curves[sc.index(j)](x[:, j]), dtype=float)
                            ok2 = ok2 and bool(np.all((np.abs(colv - exp) <= 1e-12 * np.abs(exp)) | (colv == exp) | (np.isnan(colv) & np.isnan(exp))))
                        else:
                            ok2 = ok2 and bool(np.array_equal(colv, x[:, j], equal_nan=True))
                obs.claim('partial', ok2, lambda: 'the callable returned by get_transform_fxn, applied by name to a sample with reversed '
                          'column order: %r' % (o2 if raised(o2) else 'wrong columns converted',))
