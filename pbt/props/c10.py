"""C10 -- Excel results equal the documented library steps applied by hand."""
import os
import shutil
import warnings

import numpy as np
import pandas as pd
from hypothesis import strategies as st

from pbt import xlgen
from pbt.runner import workdir
from pbt.samples import call, raised, fingerprint, fp_diff

ID = 'C10'
LEVEL = 'exploration'
RULE = ('Hypothesis draws experiments: 1..3 instruments with different channel names, 0..2 bead rows (balanced '
        'synthetic 8-population beads on log amplifiers, 1..2 MEF-value columns with optional None entries, gate '
        'fraction, 1..3 clustering channels), 1..4 sample rows (integer log-amplified or float linear cell files of '
        '450..900 events with saturated events in scatter and fluorescence channels and non-positive values in '
        'float files) with per-channel units from {empty, Channel, channel, RFI, rfi, a.u., A.U., au, AU, MEF, mef, '
        'Mef}, optionally padded with blanks, gate fractions {0.2,0.5,0.85,1}; tables are passed as DataFrames and, '
        'in a third of the cases, written to a workbook and read back.  Non-trivial = >=2 sample rows with '
        'different unit assignments and a MEF-calibrated or an untouched channel.')
ASSUMPTIONS = ['the oracle is the composition of the documented library calls written by hand in pbt/props/c10.py; the '
               "library's own lower-level functions are C03-C08/C12's business",
               'histogram scale: linear for the literal "Channel", logicle otherwise (as the UI documents); for other '
               'letter cases of "channel" either is accepted', 'bead populations are balanced (C02-KF1 excluded by '
               'construction)']
BUDGET = {
    'quick': dict(examples=24, time_s=600, shrink=False),
    'thorough': dict(examples=600, time_s=3300, shrink=True, shrink_cap_s=240),
}

STATS = [('Mean', 'mean'), ('Geom. Mean', 'gmean'), ('Median', 'median'), ('Mode', 'mode'), ('Std', 'std'), ('CV', 'cv'),
         ('Geom. Std', 'gstd'), ('Geom. CV', 'gcv'), ('IQR', 'iqr'), ('RCV', 'rcv')]


@st.composite
def _case(draw):
    c = draw(xlgen.experiment())
    c['via_workbook'] = draw(st.sampled_from([False, False, True]))
    c['hist'] = draw(st.booleans())
    return c


def strategy(tier):
    return _case()


def hand_beads(row, inst, base, seed_state=None):
    import FlowCal
    sc = [inst['fsc'], inst['ssc']]
    b = FlowCal.io.FCSData(os.path.join(base, row['file']))
    b = FlowCal.transform.to_rfi(b, sc + inst['fl'])
    g = FlowCal.gate.start_end(b, num_start=250, num_end=100)
    if g.data_type == 'I':
        g = FlowCal.gate.high_low(g, channels=sc)
    g = FlowCal.gate.density2d(g, channels=sc, gate_fraction=row['gate_fraction'], xscale='logicle', yscale='logicle',
                               sigma=5.)
    mef_channels = [c for c in inst['fl'] if row['mef'].get(c) is not None]
    mef_values = [[int(e) if e.strip().isdigit() else np.nan for e in row['mef'][c].split(',')] for c in mef_channels]
    out = None
    if mef_channels:
        out = FlowCal.mef.get_transform_fxn(g, np.array(mef_values), mef_channels=mef_channels,
                                            clustering_channels=row['clustering'], full_output=True)
    return g, out


def hand_sample(row, inst, base, fxns):
    import FlowCal
    sc = [inst['fsc'], inst['ssc']]
    s = FlowCal.io.FCSData(os.path.join(base, row['file']))
    s = FlowCal.transform.to_rfi(s, sc)
    report = []
    for ch in inst['fl']:
        u = row['units'].get(ch)
        if u is None:
            continue
        u = u.strip().lower()
        if u == 'channel':
            pass
        elif u in ('rfi', 'a.u.', 'au'):
            s = FlowCal.transform.to_rfi(s, ch)
        elif u == 'mef':
            s = FlowCal.transform.to_rfi(s, ch)
            s = fxns[row['beads']](s, ch)
        else:
            raise ValueError('units')
        report.append(ch)
    g = FlowCal.gate.start_end(s, num_start=250, num_end=100)
    if g.data_type == 'I':
        g = FlowCal.gate.high_low(g, sc + report)
    g = FlowCal.gate.density2d(g, channels=sc, gate_fraction=row['gate_fraction'], xscale='logicle', yscale='logicle')
    return g, report


def _eqnum(a, b, tol=1e-12):
    try:
        a, b = float(a), float(b)
    except (TypeError, ValueError):
        return False
    if a != a or b != b:
        return a != a and b != b
    return abs(a - b) <= tol * max(abs(a), abs(b), 1e-300) or a == b


def check(case, obs):
    import FlowCal
    import FlowCal.excel_ui as xl
    base = os.path.join(workdir(), 'c10')
    shutil.rmtree(base, ignore_errors=True)
    os.makedirs(base)
    try:
        _check(case, obs, base, FlowCal, xl)
    finally:
        shutil.rmtree(base, ignore_errors=True)


def _check(case, obs, base, FlowCal, xl):
    it, bt, stab = xlgen.materialise(case, base)
    if case['via_workbook']:
        p = os.path.join(base, 'in.xlsx')
        xlgen.write_input(p, it, bt, stab)
        it, bt, stab = (xl.read_table(p, s, 'ID') for s in ('Instruments', 'Beads', 'Samples'))
        obs.label('via_workbook')
    insts = {i['id']: i for i in case['instruments']}
    np.random.seed(case['np_seed'])
    r = call(xl.process_beads_table, bt, it, base_dir=base, full_output=True)
    if not obs.claim('completes', not raised(r), lambda: 'process_beads_table raised %r' % (r,)):
        return
    beads_samples, fxns, outs = r
    # ---- beads by hand, same random stream
    np.random.seed(case['np_seed'])
    for row in case['beads']:
        g, out = hand_beads(row, insts[row['instrument']], base)
        got = beads_samples.get(row['id'])
        if not obs.claim('beads_equal', hasattr(got, 'channels'), lambda: 'bead row %s: %r' % (row['id'], got)):
            continue
        d = fp_diff(fingerprint(got), fingerprint(g))
        obs.claim('beads_equal', not d, lambda: 'bead row %s differs from the hand composition in %r' % (row['id'], d))
        if out is not None:
            got_o = outs[row['id']]
            okp = got_o is not None and all(np.array_equal(a, b) for a, b in zip(got_o.fitting['beads_params'], out.fitting['beads_params']))
            obs.claim('beads_equal', okp and list(got_o.mef_channels) == list(out.mef_channels),
                      lambda: 'bead row %s: fitted parameters differ from the hand composition' % row['id'])
    xl.add_beads_stats(bt, beads_samples, outs)
    res = call(xl.process_samples_table, stab, it, mef_transform_fxns=fxns, beads_table=bt, base_dir=base)
    if not obs.claim('completes', not raised(res), lambda: 'process_samples_table raised %r' % (res,)):
        return
    obs.claim('order', list(res.keys()) == [s['id'] for s in case['samples']], 'result keys are not the table index in order')
    hands = {}
    unit_sets = set()
    has_mef = has_untouched = False
    for row in case['samples']:
        inst = insts[row['instrument']]
        g, report = hand_sample(row, inst, base, fxns)
        hands[row['id']] = (g, report)
        got = res.get(row['id'])
        unit_sets.add(tuple(sorted((k, v.strip().lower()) for k, v in row['units'].items())))
        has_mef = has_mef or any(v.strip().lower() == 'mef' for v in row['units'].values())
        has_untouched = has_untouched or any(c not in row['units'] for c in inst['fl'])
        if not obs.claim('sample_equal', hasattr(got, 'channels'), lambda: 'sample row %s: %r' % (row['id'], got)):
            continue
        d = fp_diff(fingerprint(got), fingerprint(g))
        obs.claim('sample_equal', not d, lambda: 'sample row %s (units %r, %s data, fraction %r) differs from the hand '
                                                 'composition in %r: shape %r vs %r' % (
                                                     row['id'], row['units'], got.data_type, row['gate_fraction'], d, got.shape, g.shape))
        obs.label('dtype:' + got.data_type, *['units:' + v.strip().lower() for v in row['units'].values()])
    obs.nontrivial = len(case['samples']) >= 2 and len(unit_sets) >= 2 and (has_mef or has_untouched)
    if has_mef and has_untouched and len(unit_sets) >= 2:
        obs.label('mef_and_untouched_channel')
    # ---- statistics
    with warnings.catch_warnings():
        warnings.simplefilter('ignore')
        r = call(xl.add_samples_stats, stab, res)
    if not obs.claim('completes', not raised(r), lambda: 'add_samples_stats raised %r' % (r,)):
        return
    for row in case['samples']:
        g, report = hands[row['id']]
        sid = row['id']
        obs.claim('count_time', stab.loc[sid, 'Number of Events'] == g.shape[0]
                  and _eqnum(stab.loc[sid, 'Acquisition Time (s)'], g.acquisition_time),
                  lambda: 'row %s: events %r / time %r, gated sample has %r / %r' % (
                      sid, stab.loc[sid, 'Number of Events'], stab.loc[sid, 'Acquisition Time (s)'], g.shape[0], g.acquisition_time))
        notes = stab.loc[sid, 'Analysis Notes']
        for ch in insts[row['instrument']]['fl']:
            if '%s Mean' % ch not in stab.columns:
                continue
            if ch not in report:
                obs.claim('stats', all(pd.isnull(stab.loc[sid, '%s %s' % (ch, col)]) for col, _ in STATS),
                          lambda: 'row %s: statistics reported for channel %s without units' % (sid, ch))
                continue
            nonpos = bool(np.any(np.asarray(g[:, ch]) <= 0))
            gp = g[np.asarray(g[:, ch]) > 0] if nonpos else g
            for col, fn in STATS:
                src = gp if fn in ('gmean', 'gstd', 'gcv') else g
                with warnings.catch_warnings():
                    warnings.simplefilter('ignore')
                    exp = getattr(FlowCal.stats, fn)(src, ch)
                obs.claim('stats', _eqnum(stab.loc[sid, '%s %s' % (ch, col)], exp),
                          lambda: 'row %s: %s %s = %r, library statistic of the gated sample = %r' % (
                              sid, ch, col, stab.loc[sid, '%s %s' % (ch, col)], exp))
            said = isinstance(notes, str) and 'positive events' in notes and ch in notes
            obs.claim('stats_note', said == nonpos,
                      lambda: 'row %s channel %s: non-positive events %r but note %r' % (sid, ch, nonpos, notes))
            if nonpos:
                obs.label('geometric_on_positive_only')
    # ---- histograms
    if case['hist']:
        h = call(xl.generate_histograms_table, stab, res)
        if not obs.claim('completes', not raised(h), lambda: 'generate_histograms_table raised %r' % (h,)):
            return
        for row in case['samples']:
            g, report = hands[row['id']]
            for ch in report:
                unit = row['units'][ch]
                nb = min(g.resolution(ch), 1024)
                scales = ['linear'] if unit == 'Channel' else (['logicle'] if unit.strip().lower() != 'channel' else ['linear', 'logicle'])
                ok = False
                why = ''
                for sc in scales:
                    ext = g.hist_bins(ch, 2 * nb, sc)
                    edges, centers = ext[::2], ext[1::2]
                    try:
                        counts = h.loc[(row['id'], ch, 'Counts')].values[:nb].astype(float)
                        cents = h.loc[(row['id'], ch, 'Bin Centers (%s)' % unit)].values[:nb].astype(float)
                    except KeyError as e:
                        why = 'missing histogram rows %r' % (e,)
                        continue
                    exp_counts, _ = np.histogram(np.asarray(g[:, ch]), bins=edges)
                    inside = int(np.sum((np.asarray(g[:, ch]) >= edges[0]) & (np.asarray(g[:, ch]) <= edges[-1])))
                    if np.array_equal(counts, exp_counts) and np.allclose(cents, centers, rtol=1e-12) and counts.sum() == inside:
                        ok = True
                    else:
                        why = 'counts/centres differ for scale %s (sum %r, events within the edges %r)' % (sc, counts.sum(), inside)
                obs.claim('hist', ok, lambda: 'row %s channel %s (%r): %s' % (row['id'], ch, unit, why))
        obs.label('hist_sheet')


# ----------------------------------------------------------------------------------------------
# curated experiments: combinations the random search reaches rarely within the quick budget
# ----------------------------------------------------------------------------------------------

def curated():
    lad = lambda k: ', '.join(str(v * k) for v in xlgen.LADDER)
    i1 = dict(id='I1', fsc='FSC-H', ssc='SSC-H', fl=['FL1-H', 'FL2-H'], time='Time')
    i2 = dict(id='I2', fsc='FSC-A', ssc='SSC-A', fl=['Pacific Blue-A', 'PE(YG)-A'], time='TIME')
    cells = lambda inst, seed, dt='I', res=1024: dict(kind='cells', instrument=inst, seed=seed, n=600, datatype=dt, res=res)
    out = []
    # the same file analysed with two different bead rows (and once without calibration), same units
    out.append(dict(instruments=[i1],
                    files={'beads1.fcs': dict(kind='beads', instrument='I1', seed=31), 'beads2.fcs': dict(kind='beads', instrument='I1', seed=32),
                           'c1.fcs': cells('I1', 33), 'c2.fcs': dict(cells('I1', 34, 'F'), timestep='0'), 'c3.fcs': cells('I1', 36, 'D'), 'c4.fcs': cells('I1', 37, 'F'),
                           'c5.fcs': dict(cells('I1', 38), n=400), 'c6.fcs': dict(cells('I1', 39), volt=[500, 550, 600, 777]),
                           'c7.fcs': dict(cells('I1', 40), no_volt=True)},
                    beads=[dict(id='B1', instrument='I1', file='beads1.fcs', gate_fraction=0.3, clustering=['FL1-H'], mef={'FL1-H': lad(1)}),
                           dict(id='B2', instrument='I1', file='beads2.fcs', gate_fraction=0.3, clustering=['FL1-H', 'FL2-H'],
                                mef={'FL1-H': lad(2), 'FL2-H': lad(3)})],
                    samples=[dict(id='S1', instrument='I1', beads='B1', file='c1.fcs', gate_fraction=0.5, units={'FL1-H': 'MEF', 'FL2-H': 'RFI'}),
                             dict(id='S2', instrument='I1', beads='B2', file='c1.fcs', gate_fraction=0.5, units={'FL1-H': 'MEF', 'FL2-H': 'RFI'}),
                             dict(id='S3', instrument='I1', beads='B2', file='c1.fcs', gate_fraction=0.5, units={'FL1-H': 'mef', 'FL2-H': ' MEF '}),
                             dict(id='S4', instrument='I1', beads=None, file='c2.fcs', gate_fraction=1.0, units={'FL1-H': 'a.u.', 'FL2-H': 'Channel'}),
                             dict(id='S5', instrument='I1', beads=None, file='c2.fcs', gate_fraction=0.2, units={'FL2-H': 'au'}),
                             # a second float file reporting the same channel in the same units: its own negative events
                             dict(id='S6', instrument='I1', beads=None, file='c3.fcs', gate_fraction=0.5, units={'FL1-H': 'rfi'}),
                             # a float file whose most negative scatter events are among the discarded first/last events
                             dict(id='S7', instrument='I1', beads=None, file='c4.fcs', gate_fraction=0.4, units={'FL2-H': 'RFI'}),
                             # exactly the smallest number of events the workflow accepts (400)
                             dict(id='S8', instrument='I1', beads=None, file='c5.fcs', gate_fraction=0.8, units={'FL1-H': 'RFI'}),
                             # another FL2-H voltage than the beads file's; B2 calibrates FL2-H too, but this row does not ask for it
                             dict(id='S9', instrument='I1', beads='B2', file='c6.fcs', gate_fraction=0.5, units={'FL1-H': 'MEF', 'FL2-H': 'RFI'}),
                             # a file that records no detector voltages, calibrated
                             dict(id='S10', instrument='I1', beads='B1', file='c7.fcs', gate_fraction=0.5, units={'FL1-H': 'MEF'})],
                    np_seed=9, via_workbook=False, hist=True))
    # two instruments, names with blanks and with characters that are special in regular expressions, different
    # resolutions, workbook round trip
    out.append(dict(instruments=[i1, i2],
                    files={'beads1.fcs': dict(kind='beads', instrument='I2', seed=41), 'c1.fcs': cells('I2', 42, 'I', 4096),
                           'c2.fcs': cells('I1', 43, 'I', 256), 'c3.fcs': cells('I2', 44, 'F')},
                    beads=[dict(id='B1', instrument='I2', file='beads1.fcs', gate_fraction=0.5, clustering=['Pacific Blue-A', 'PE(YG)-A'],
                                mef={'Pacific Blue-A': lad(1)})],
                    samples=[dict(id='S1', instrument='I2', beads='B1', file='c1.fcs', gate_fraction=0.85, units={'Pacific Blue-A': 'MEF', 'PE(YG)-A': 'Channel'}),
                             dict(id='S2', instrument='I1', beads=None, file='c2.fcs', gate_fraction=0.5, units={'FL1-H': 'Channel', 'FL2-H': 'rfi'}),
                             dict(id='S3', instrument='I2', beads='B1', file='c3.fcs', gate_fraction=0.5, units={'PE(YG)-A': 'A.U.'})],
                    np_seed=10, via_workbook=True, hist=True))
    return out


def exhaustive_jobs(tier):
    return curated()


def run_job(job):
    from pbt.runner import Obs
    obs = Obs()
    try:
        check(job, obs)
    except Exception as e:
        obs.failures.append(('crash', 'curated experiment: %s: %s' % (type(e).__name__, e)))
    return dict(evaluations=1, nontrivial=1, failures=[(t, m, job) for t, m in obs.failures[:5]], labels={'curated_experiment': 1},
                claims=dict(obs.claims), samples=[], complete=True)
