"""C02 -- bead calibration end to end yields the true RFI-to-MEF conversion."""
import math
import os
import warnings

import numpy as np
from hypothesis import strategies as st

from pbt import fcsgen
from pbt.runner import workdir
from pbt.samples import call, raised, f64_bits

ID = 'C02'
LEVEL = 'exploration'
RULE = ('Hypothesis draws a synthetic bead sample: 6..8 subpopulations, 1..3 fluorescence channels with '
        'independent laws (m in [0.9,1.2], b in [1,5]), adjacent RFI ratio 2.5..4, CV 2..5 %, brightest population '
        'at 0.2..0.5 of the channel range (resolution 1024 or 262144, float data; or integer data from a 4-decade log '
        'amplifier converted with to_rfi, whose ranges start at 1), optional blank population, '
        'autofluorescence below half the dimmest non-blank bead, optional population piled up at a detector limit, '
        'optional unknown entries (None / NaN, >=3 known), statistic median/mean, clustering channels all / one / '
        'subset, random seed, random event order. Population sizes 200..800: balanced regime (max/min<=1.5, 70 %) '
        'where everything is enforced, and imbalanced regime (ratio up to 4) where grouping failures are known '
        'finding C02-KF1.  Non-trivial = >=2 channels, or an unknown entry, or a piled-up population, or '
        'clustering channels != calibrated channels.')
ASSUMPTIONS = ['the 10 % accuracy claim is asserted when at least five participating populations are brighter than 3x the '
               'autofluorescence (the recovery precondition of C09); the other sub-claims always',
               'generated samples follow the bead law exactly at the population centres; MEF values are passed as '
               'floats', 'grouping tolerance 0.2 % of events (5 % CV tails)',
               'accuracy (10 %) is evaluated over the span of the populations that took part in the fit',
               'curve equality between equivalent runs: rel. 1e-6']
BUDGET = {
    'quick': dict(examples=320, time_s=420, shrink=False),
    'thorough': dict(examples=1500, time_s=3000, shrink=True, shrink_cap_s=240),
}

CH = ['FL1-H', 'FL2-H', 'FL3-H']


@st.composite
def _case(draw):
    npop = draw(st.integers(6, 8))
    nch = draw(st.integers(1, 3))
    variant = draw(st.sampled_from(['float', 'float', 'int_log']))
    R = draw(st.sampled_from([1024, 262144])) if variant == 'float' else 1024
    laws = []
    for _ in range(nch):
        laws.append(dict(m=draw(st.floats(0.9, 1.2)), b=draw(st.floats(1.0, 5.0)),
                         top=draw(st.floats(0.2, 0.5)), ratios=[draw(st.floats(2.5, 4.0)) for _ in range(npop - 1)],
                         auto_frac=draw(st.floats(0.0, 0.5))))
    regime = draw(st.sampled_from(['balanced'] * 7 + ['imbalanced'] * 3))
    if regime == 'balanced':
        base = draw(st.integers(200, 530))
        sizes = [draw(st.integers(base, int(base * 1.5))) for _ in range(npop)]
    else:
        sizes = [draw(st.integers(200, 800)) for _ in range(npop)]
    blank = draw(st.booleans())
    # how far below the dimmest stained bead the blank sits (i.e. how small the autofluorescence is)
    blank_step = draw(st.sampled_from([None, 10.0, 20.0, 30.0, 30.0, 40.0])) if (blank and variant == 'float') else None
    # a population may pile up at a detector limit in some channels only
    piled = [draw(st.sampled_from([None, None, None, 'brightest', 'dimmest'])) for _ in range(nch)]
    unknown = {}
    for c in range(nch):
        if draw(st.sampled_from([False, False, True])):
            k = draw(st.integers(1, npop - 4))
            pos = draw(st.lists(st.integers(0, npop - 1), min_size=k, max_size=k, unique=True))
            unknown[str(c)] = [[p, draw(st.sampled_from(['none', 'nan']))] for p in pos]
    cl = draw(st.sampled_from(['all', 'all', 'one', 'subset']))
    if cl == 'one':
        clustering = [draw(st.integers(0, nch - 1))]
    elif cl == 'subset' and nch > 1:
        clustering = draw(st.lists(st.integers(0, nch - 1), min_size=1, max_size=nch - 1, unique=True))
    else:
        clustering = list(range(nch))
    case = dict(low_gain=None, blank_step=blank_step, variant=variant, npop=npop, nch=nch, R=R, laws=laws, sizes=sizes, regime=regime, blank=blank, piled=piled,
                unknown=unknown, clustering=clustering, cv=draw(st.floats(0.02, 0.05)),
                statistic=draw(st.sampled_from(['median', 'mean'])), data_seed=draw(st.integers(0, 2 ** 20)),
                np_seed=draw(st.integers(0, 2 ** 20)), perm_seed=draw(st.integers(0, 2 ** 20)))
    # a series acquired at low gain: the dimmest population sits at 1..3 a.u. of an 18-bit detector, in the quasi-linear
    # zone of the logicle scale the clustering works on.  Derived from the drawn data seed rather than drawn on its own,
    # so that every other case is the one earlier versions of this generator produced for the same VERIF_SEED.
    if variant == 'float' and R == 262144 and npop >= 7 and case['data_seed'] % 4 == 0:
        # up to four of the dimmest populations are discarded at the display edge there; with unknown or piled-up
        # populations on top fewer than the three the fit needs could remain (a documented refusal, not a failure);
        # a far-away blank would push the brightest bead past the detector limit
        case.update(low_gain=1.0 + (case['data_seed'] // 4) % 3, piled=[None] * nch, unknown={}, blank_step=None)
    return case


def strategy(tier):
    return _case()


def known_match(entry, case, tag, msg):
    # C02-KF1: equal-quantile EM initialisation mis-groups populations of unequal size
    return entry['id'] == 'C02-KF1' and tag == 'grouping_imbalanced' and max(case['sizes']) / float(min(case['sizes'])) > 1.5


def _piled(case, c):
    p = case['piled']
    return p[c] if isinstance(p, list) else p


def synth(case):
    """Returns (events matrix float64 [n x (2+nch+1)], true labels, per-channel dict(rfi centres, mef values))."""
    rng = np.random.Generator(np.random.PCG64(case['data_seed']))
    npop, nch, R = case['npop'], case['nch'], case['R']
    sizes = case['sizes']
    n = sum(sizes)
    labels = np.repeat(np.arange(npop), sizes)
    cols = []
    info = []
    int_log = case.get('variant') == 'int_log'
    TOP = 10 ** (4.0 * (R - 1) / R) if int_log else R - 1.0        # upper limit in RFI units
    for c in range(nch):
        law = case['laws'][c]
        top = (0.3 + 0.2 * (law['top'] - 0.2) / 0.3) if int_log else law['top']
        rfi = [top * TOP]
        ratios = list(law['ratios'])
        if int_log:
            # a 4-decade log amplifier starts at RFI 1: compress the ladder so that the dimmest bead stays >= 3
            cap = (top * TOP / 3.0) ** (1.0 / (npop - 1))
            ratios = [min(2.5 + (r - 2.5) / 3.0, cap) for r in ratios]
        for r in ratios:
            rfi.append(rfi[-1] / r)
        rfi = rfi[::-1]                                     # increasing brightness
        if case.get('low_gain') and not int_log:
            dim0 = rfi[1] / (case.get('blank_step') or (3.4 + 0.6 * law['auto_frac'] / 0.5)) if case['blank'] else rfi[0]
            rfi = [v * case['low_gain'] / dim0 for v in rfi]
        m, b = law['m'], law['b']
        first = 1 if case['blank'] else 0
        total_dim = math.exp(b) * rfi[first] ** m           # mef + auto of the dimmest non-blank bead
        auto = law['auto_frac'] * total_dim / (1.0 + law['auto_frac'])   # auto < half of the dimmest bead's MEF
        if case['blank']:
            # blank population: MEF 0, RFI given by the autofluorescence; it sits one ladder step (ratio 3.4..4,
            # so that the autofluorescence stays below half the dimmest bead's MEF) under the dimmest bead
            rfi[0] = rfi[1] / (case.get('blank_step') or (3.4 + 0.6 * law['auto_frac'] / 0.5))
            if int_log:
                rfi[0] = max(rfi[0], 2.5)
            auto = math.exp(b) * rfi[0] ** m
        mef = [max(0.0, math.exp(b) * x ** m - auto) for x in rfi]
        if case['blank']:
            mef[0] = 0.0
        x = np.array(rfi)[labels] * np.exp(rng.normal(0.0, case['cv'], n))
        if int_log:
            x = np.round(np.clip((R / 4.0) * np.log10(np.clip(x, 1e-9, None)), 0, R - 1))     # channel numbers
        if _piled(case, c) == 'brightest':
            x[labels == npop - 1] = R - 1.0
        elif _piled(case, c) == 'dimmest':
            x[labels == 0] = 0.0
        cols.append(np.clip(x, 0, R - 1.0))
        info.append(dict(rfi=rfi, mef=mef, auto=auto, m=m, b=b))
    fsc = rng.normal(0.4 * R, 0.03 * R, n)
    ssc = rng.normal(0.3 * R, 0.03 * R, n)
    t = np.sort(rng.integers(0, R, n)).astype(float)
    X = np.column_stack([fsc, ssc] + cols + [t])
    perm = rng.permutation(n)
    return X[perm], labels[perm], info


def _same_curve(p, q, tol=1e-3, lo=1e-2, hi=1e4):
    """Standard curves exp(b)*x^m equal within tol over [lo, hi] (the calibrated span).  Not tighter: labels are *sampled* from the
    mixture responsibilities, so a permuted sample consumes the random stream in another order and a handful of
    ambiguous events may change population; the statistics then move by ~1e-6..1e-4."""
    p, q = np.asarray(p, dtype=float), np.asarray(q, dtype=float)
    x = np.logspace(math.log10(lo), math.log10(hi), 25)
    a = np.exp(p[1]) * x ** p[0]
    b = np.exp(q[1]) * x ** q[0]
    return bool(np.all(np.abs(a / b - 1.0) <= tol))


def load(X, R, name, int_log=False):
    import FlowCal.io
    import FlowCal.transform
    D = X.shape[1]
    names = ['FSC-H', 'SSC-H'] + CH[:D - 3] + ['Time']
    if int_log:
        spec = dict(version='FCS2.0', datatype='I', byteord='4,3,2,1', widths=[16] * D, ranges=[R] * D, names=names,
                    pne=['0,0', '0,0'] + ['4,1'] * (D - 3) + ['0,0'],
                    events=[[int(min(max(round(float(v)), 0), R - 1)) for v in row] for row in X])
    else:
        spec = dict(version='FCS3.0', datatype='D', byteord='1,2,3,4', widths=[64] * D, ranges=[R] * D, names=names,
                    pne=['0,0'] * D, events=[[f64_bits(float(v)) for v in row] for row in X])
    path = os.path.join(workdir(), name)
    fcsgen.write(path, spec)
    d = FlowCal.io.FCSData(path)
    if int_log:
        d = FlowCal.transform.to_rfi(d, CH[:D - 3])       # ranges now start at 1, not at 0
    return d


def check(case, obs):
    import FlowCal.mef as mef
    import FlowCal.stats
    X, labels, info = synth(case)
    npop, nch = case['npop'], case['nch']
    int_log = case.get('variant') == 'int_log'
    d = load(X, case['R'], 'c02.fcs', int_log)
    Xd = np.asarray(d, dtype=float)
    chans = CH[:nch]
    stat = dict(median=FlowCal.stats.median, mean=FlowCal.stats.mean)[case['statistic']]
    # manufacturer values, with unknown entries
    mef_values = []
    for c in range(nch):
        vals = [float(v) for v in info[c]['mef']]
        for p, how in case['unknown'].get(str(c), []):
            vals[p] = None if how == 'none' else float('nan')
        mef_values.append(vals)
    if case['np_seed'] % 2 == 0:
        # callers also hand over a float array (unknown entries as NaN); it is theirs and must stay as it is
        mef_values = np.array([[np.nan if v is None else v for v in row] for row in mef_values], dtype=float)
        obs.label('mef_values:ndarray')
    mef_snapshot = np.array(mef_values, dtype=float, copy=True) if isinstance(mef_values, np.ndarray) else None
    clustering_channels = [chans[i] for i in case['clustering']]
    nontriv = nch >= 2 or bool(case['unknown']) or any(_piled(case, c) for c in range(nch)) or sorted(case['clustering']) != list(range(nch))
    obs.nontrivial = nontriv
    obs.label('variant:' + case.get('variant', 'float'), 'regime:' + case['regime'], 'low_gain' if case.get('low_gain') else 'normal_gain', 'channels:%d' % nch, 'piled:%s' % ('mixed' if len({_piled(case, c) for c in range(nch)}) > 1 else _piled(case, 0)), 'blank' if case['blank'] else 'no_blank',
              'unknown' if case['unknown'] else 'all_known', 'stat:' + case['statistic'],
              'clustering:' + ('all' if sorted(case['clustering']) == list(range(nch)) else 'subset'))

    def run(data, channels, values, seed=case['np_seed'], cc=clustering_channels):
        np.random.seed(seed)
        return call(mef.get_transform_fxn, data, values if len(channels) > 1 else values[0],
                    channels if len(channels) > 1 else channels[0], clustering_channels=cc, statistic_fxn=stat,
                    full_output=True)

    out = run(d, chans, mef_values)
    imbalanced = max(case['sizes']) / float(min(case['sizes'])) > 1.5
    if raised(out) and 'at least three values' in repr(out) and case.get('blank_step') and case['blank']:
        # unknown values, a piled-up population and a far blank discarded at the display edge (accepted either way, see
        # below) can together leave fewer than the three populations a fit needs: a documented refusal, not a failure
        left = [npop - len({p for p, _ in case['unknown'].get(str(c), [])} | ({0} if True else set())
                           | ({npop - 1} if _piled(case, c) == 'brightest' else set())) for c in range(nch)]
        if min(left) < 3:
            obs.exclude('refused_fewer_than_three_after_dim_blank_discard')
            return
    if raised(out):
        obs.fail('grouping_imbalanced' if imbalanced else 'returns', 'get_transform_fxn raised %r (sizes %r)' % (out, case['sizes']))
        return
    lab = np.asarray(out.clustering['labels'])
    n = len(labels)
    ok = lab.shape == (n,) and set(np.unique(lab)) <= set(range(npop))
    obs.claim('consistency', ok and list(out.mef_channels) == chans, 'labels / mef_channels malformed')
    if not ok:
        return
    # ---- grouping: confusion matrix is a permutation up to 0.2 % of events
    conf = np.zeros((npop, npop), dtype=int)
    np.add.at(conf, (labels, lab), 1)
    best = conf.max(axis=1).sum()
    perm_like = len(set(conf.argmax(axis=1))) == npop
    wrong = n - best
    grouped = perm_like and wrong <= 0.002 * n
    if not grouped:
        obs.fail('grouping_imbalanced' if imbalanced else 'grouping',
                 '%d of %d events grouped away from their population; sizes %r; confusion rows %r' % (
                     wrong, n, case['sizes'], conf.tolist()))
        return
    obs.claims['grouping'] += 1
    exact = wrong == 0
    for c in range(nch):
        piled_idx = {None: None, 'brightest': npop - 1, 'dimmest': 0}[_piled(case, c)]
        ch = chans[c]
        vals = out.statistic['values'][c]
        sel_rfi = np.asarray(out.selection['rfi'][c], dtype=float)
        sel_mef = np.asarray(out.selection['mef'][c], dtype=float)
        obs.claim('consistency', len(vals) == npop and len(sel_rfi) == len(sel_mef), 'statistic / selection lengths')
        col = Xd[:, 2 + c]
        true_stat = np.array([float(stat(col[labels == k])) for k in range(npop)])
        unk = {p for p, _ in case['unknown'].get(str(c), [])}
        keep = [k for k in range(npop) if k not in unk and k != piled_idx]
        if case.get('blank_step') and case['blank'] and 0 in keep and len(sel_mef) == len(keep) - 1 and len(sel_mef) and sel_mef[0] != 0:
            # a blank that far below the stained beads can lie within 1.5 % of the display range's lower end, where the
            # selection step discards a population like one piled up at the limit (documented in selection_std); the
            # dim-blank cases accept either outcome for the blank, and everything else is checked on what took part
            keep = keep[1:]
            obs.exclude('dim_blank_discarded_at_display_edge')
        if case.get('low_gain') and len(sel_mef) < len(keep):
            # low gain: the dimmest populations lie within 1.5 % of the display range's lower end (below ~30 a.u. of an
            # 18-bit detector), where the selection step discards them like populations piled up at the limit (documented
            # in selection_std); either outcome is accepted for those, the rest is checked on what took part
            j = len(keep) - len(sel_mef)
            if all(true_stat[k] < 30.0 for k in keep[:j]):
                keep = keep[j:]
                obs.exclude('low_gain_discarded_at_display_edge')
        exp_mef = np.array([info[c]['mef'][k] for k in keep])
        exp_rfi = true_stat[keep]
        obs.claim('exclusion', len(sel_mef) == len(keep),
                  lambda: 'channel %s: %d populations took part in the fit, expected %d (unknown %r, piled %r)' % (
                      ch, len(sel_mef), len(keep), sorted(unk), piled_idx))
        if len(sel_mef) != len(keep):
            continue
        obs.claim('pairing', bool(np.allclose(sel_mef, exp_mef, rtol=1e-12, atol=0)),
                  lambda: 'channel %s: selected MEF %r, values of the participating populations in brightness order %r' % (
                      ch, sel_mef.tolist(), exp_mef.tolist()))
        obs.claim('pairing', bool(np.allclose(sel_rfi, exp_rfi, rtol=1e-9 if exact else 2e-2, atol=0)),
                  lambda: 'channel %s: selected RFI %r, true per-population %s %r' % (ch, sel_rfi.tolist(), case['statistic'], exp_rfi.tolist()))
        params = np.asarray(out.fitting['beads_params'][c], dtype=float)
        if exact:
            ref = mef.fit_beads_autofluorescence(exp_rfi, exp_mef)
            obs.claim('fit_true_medians', bool(np.allclose(params, ref[2], rtol=1e-6, atol=1e-9)),
                      lambda: 'channel %s: fitted %r, fit to the true statistics %r' % (ch, params.tolist(), list(ref[2])))
        # accuracy over the calibrated span
        grid = np.exp(np.linspace(math.log(max(exp_rfi.min(), 1e-12)), math.log(exp_rfi.max()), 40))
        probe = np.zeros((len(grid), d.shape[1]))
        probe[:, 2 + c] = grid
        conv = call(out.transform_fxn, probe, 2 + c) if False else call(out.fitting['std_crv'][c], grid)
        true = math.exp(info[c]['b']) * grid ** info[c]['m']
        rel = float(np.max(np.abs(np.asarray(conv) / true - 1.0))) if not raised(conv) else float('inf')
        # the 10 % claim needs a well-determined fit: C09's precondition (at least five participating populations
        # clearly brighter than the autofluorescence); with fewer, 0.2 % sampling noise in the statistics is
        # amplified beyond 10 % by the three-parameter fit although it still equals the fit to the true statistics
        if int(np.sum(exp_mef >= 3.0 * info[c]['auto'])) >= 5:
            obs.claim('accuracy', rel <= 0.10, lambda: 'channel %s: conversion off by %.1f %% over the calibrated span' % (ch, 100 * rel))
        else:
            obs.exclude('accuracy_fit_underdetermined')
        # the returned transformation applies that curve to that channel
        t = call(out.transform_fxn, d, ch)
        obs.claim('transform_fxn', not raised(t) and bool(np.allclose(np.asarray(t)[:, 2 + c], out.fitting['std_crv'][c](col), rtol=1e-12)),
                  'transform_fxn does not apply the fitted curve to its channel')
        # ... also on a sample whose columns are laid out differently from the bead file's (channel given by name)
        if isinstance(ch, str):
            rev = d[:, list(range(d.shape[1]))[::-1]]
            t2 = call(out.transform_fxn, rev, ch)
            pos = d.shape[1] - 1 - (2 + c)
            obs.claim('transform_fxn', not raised(t2) and bool(np.allclose(np.asarray(t2)[:, pos], out.fitting['std_crv'][c](col), rtol=1e-12))
                      and all(np.array_equal(np.asarray(t2)[:, j], np.asarray(rev)[:, j]) for j in range(d.shape[1]) if j != pos),
                      lambda: 'transform_fxn applied to a sample with reversed column order (channel %r by name): %r' % (ch, t2 if raised(t2) else 'wrong columns converted'))
            if all(isinstance(x, str) for x in chans):
                # a selection holding just the calibrated channels, last one first
                sub = d[:, list(chans)[::-1]]
                t3 = call(out.transform_fxn, sub, ch)
                p3 = list(chans)[::-1].index(ch)
                obs.claim('transform_fxn', not raised(t3) and bool(np.allclose(np.asarray(t3)[:, p3], out.fitting['std_crv'][c](col), rtol=1e-12)),
                          lambda: 'transform_fxn applied to the selection %r (channel %r by name): %r' % (list(chans)[::-1], ch, t3 if raised(t3) else 'not converted'))
    if nch > 1:
        # several channels at once, listed in another order than they were calibrated in
        rv = list(chans)[::-1]
        tm = call(out.transform_fxn, d, rv)
        obs.claim('transform_fxn', not raised(tm) and all(
            bool(np.allclose(np.asarray(tm)[:, 2 + c], out.fitting['std_crv'][c](Xd[:, 2 + c]), rtol=1e-12)) for c in range(nch)),
            lambda: 'transform_fxn(channels=%r): a channel was not converted with its own curve (%r)' % (rv, tm if raised(tm) else ''))
    t_first = [np.asarray(out.fitting['std_crv'][c](Xd[:, 2 + c])).copy() for c in range(nch)]
    # ---- reproducible for a fixed seed
    out2 = run(d, chans, mef_values)
    same = (not raised(out2) and np.array_equal(np.asarray(out2.clustering['labels']), lab)
            and all(np.array_equal(a, b) for a, b in zip(out2.fitting['beads_params'], out.fitting['beads_params'])))
    obs.claim('seed', same, 'two runs with the same random seed differ')
    # ---- event order
    perm = np.random.Generator(np.random.PCG64(case['perm_seed'])).permutation(n)
    dp = load(X[perm], case['R'], 'c02p.fcs', int_log)
    outp = run(dp, chans, mef_values)
    # the permuted sample must be grouped by generating population as well, and give the same conversion.  Curves
    # are compared at 5 % over the span of the populations that took part in the fit: labels are sampled from the responsibilities (another order consumes the random stream
    # differently) and the optimiser's stopping rule amplifies 1e-16 differences in the statistics when the
    # autofluorescence is weakly determined (observed: m differing by 0.33 % with four populations in the fit, both fits within the 10 % claim).
    okp = not raised(outp)
    if okp:
        labp = np.asarray(outp.clustering['labels'])
        confp = np.zeros((npop, npop), dtype=int)
        np.add.at(confp, (labels[perm], labp), 1)
        okp = len(set(confp.argmax(axis=1))) == npop and n - confp.max(axis=1).sum() <= 0.002 * n
        okp = okp and all(_same_curve(a, b, 5e-2, max(float(np.min(r_)), 1e-9), float(np.max(r_)))
                          for a, b, r_ in zip(outp.fitting['beads_params'], out.fitting['beads_params'], out.selection['rfi']))
    obs.claim('event_order', okp, lambda: 'grouping or curves change with the order of events: %r vs %r' % (
        None if raised(outp) else [list(p) for p in outp.fitting['beads_params']], [list(p) for p in out.fitting['beads_params']]))
    # ---- number of channels calibrated at once
    if nch > 1:
        c = case['perm_seed'] % nch
        outs = run(d, [chans[c]], [list(mef_values[c])] if not isinstance(mef_values, np.ndarray) else mef_values[c:c + 1])
        oks = not raised(outs) and _same_curve(outs.fitting['beads_params'][0], out.fitting['beads_params'][c])
        obs.claim('channel_count', oks, lambda: 'calibrating %s alone gives another curve than together with the others' % chans[c])
    # ---- one channel in the documented bare form, clustering channels left to their default (= that channel)
    if nch == 1 and case['np_seed'] % 2 == 1:
        np.random.seed(case['np_seed'])
        outd = call(mef.get_transform_fxn, d, mef_values[0], chans[0], statistic_fxn=stat, full_output=True)
        okd = not raised(outd) and all(np.array_equal(np.asarray(a), np.asarray(b))
                                       for a, b in zip(outd.fitting['beads_params'], out.fitting['beads_params']))
        obs.claim('spelling', okd, lambda: 'bare channel %r with default clustering channels: %r' % (chans[0], outd if raised(outd) else 'another result'))
    # ---- a caller-supplied clustering function (documented parameter) that numbers the same groups in another order:
    # values are assigned by brightness, not by label, so the calibration is the same
    if exact and npop >= 3 and case['np_seed'] % 4 in (1, 2):
        shift = 1 + case['perm_seed'] % (npop - 1)
        relabel = (np.asarray(lab) * (1 if case['np_seed'] % 4 == 1 else -1) + shift) % npop     # a rotation / a reflection of the labels

        def own_clustering(data, n_clusters, **kw):
            return relabel.copy()
        np.random.seed(case['np_seed'])
        outc = call(mef.get_transform_fxn, d, mef_values if nch > 1 else mef_values[0], chans if nch > 1 else chans[0],
                    clustering_fxn=own_clustering, clustering_channels=clustering_channels, statistic_fxn=stat, full_output=True)
        okc = not raised(outc) and all(
            np.allclose(np.asarray(a, dtype=float), np.asarray(b, dtype=float), rtol=1e-9, atol=0)
            for c in range(nch) for a, b in ((outc.fitting['beads_params'][c], out.fitting['beads_params'][c]),
                                             (outc.selection['mef'][c], out.selection['mef'][c]),
                                             (outc.selection['rfi'][c], out.selection['rfi'][c]))
            if np.shape(a) == np.shape(b) or True)
        obs.label('relabelled_groups')
        obs.claim('pairing', okc, lambda: 'the same groups under other labels (shift %d) give another calibration: %r' % (
            shift, outc if raised(outc) else [list(p_) for p_ in outc.fitting['beads_params']]))
    # ---- asking for the diagnostic figures as well changes nothing in what is reported (same data, same seed)
    if case['np_seed'] % 8 == 5:
        import matplotlib
        matplotlib.use('Agg')
        import matplotlib.pyplot as plt
        import shutil
        from pbt.runner import workdir
        pdir = os.path.join(workdir(), 'c02plots')
        shutil.rmtree(pdir, ignore_errors=True)
        os.makedirs(pdir)
        from pbt.samples import fingerprint as _fp, fp_diff as _fpd
        d_before = _fp(d)
        np.random.seed(case['np_seed'])
        with warnings.catch_warnings():
            warnings.simplefilter('ignore')
            outf = call(mef.get_transform_fxn, d, mef_values if nch > 1 else mef_values[0], chans if nch > 1 else chans[0],
                        clustering_channels=clustering_channels, statistic_fxn=stat, full_output=True, plot=True,
                        plot_dir=pdir, plot_filename='beads')
        plt.close('all')
        obs.label('with_figures')
        obs.claim('input_intact', not _fpd(d_before, _fp(d)), lambda: 'drawing the figures changed the bead sample: %r' % (_fpd(d_before, _fp(d)),))

        def same(a, b):
            a, b = np.asarray(a, dtype=float), np.asarray(b, dtype=float)
            return a.shape == b.shape and np.array_equal(a, b, equal_nan=True)
        okf = not raised(outf)
        diff = []
        if okf:
            if not np.array_equal(np.asarray(outf.clustering['labels']), lab):
                diff.append('labels')
            for c in range(nch):
                for what, a, b in (('statistic', outf.statistic['values'][c], out.statistic['values'][c]),
                                   ('selected rfi', outf.selection['rfi'][c], out.selection['rfi'][c]),
                                   ('selected mef', outf.selection['mef'][c], out.selection['mef'][c]),
                                   ('beads_params', outf.fitting['beads_params'][c], out.fitting['beads_params'][c])):
                    if not same(a, b):
                        diff.append('%s of %s: %r vs %r' % (what, chans[c], np.asarray(a).tolist(), np.asarray(b).tolist()))
        obs.claim('seed', okf and not diff, lambda: 'with plot=True the reported results differ from the run without figures: %r' % (
            outf if raised(outf) else diff[:3],))
        shutil.rmtree(pdir, ignore_errors=True)
    # ---- channels given by position instead of by name (same data, same seed): the same calibration
    if case['np_seed'] % 3 == 0:
        pos = [2 + c for c in range(nch)]
        outq = run(d, pos, mef_values, cc=[2 + i for i in case['clustering']])
        okq = not raised(outq) and all(np.array_equal(np.asarray(a), np.asarray(b))
                                       for a, b in zip(outq.fitting['beads_params'], out.fitting['beads_params']))
        obs.claim('spelling', okq, lambda: 'calibrating positions %r instead of names %r gives another result: %r' % (
            pos, list(chans), outq if raised(outq) else [list(p_) for p_ in outq.fitting['beads_params']]))
    # ---- the curves returned first still compute what they computed (later calibrations share nothing with them)
    obs.claim('stable', all(np.array_equal(np.asarray(out.fitting['std_crv'][c](Xd[:, 2 + c])), t_first[c]) for c in range(nch)),
              'standard curves returned by the first calibration changed after later calibrations')
    # ... also when the caller goes on using (here: reverses in place) the channel list it handed over
    if nch > 1 and isinstance(chans, list) and all(isinstance(x, str) for x in chans):
        before_t = [np.asarray(call(out.transform_fxn, d, ch_)) for ch_ in list(chans)]
        names_then = list(chans)
        reported = list(out.mef_channels) if hasattr(out, 'mef_channels') else None
        chans.reverse()
        try:
            after_t = [np.asarray(call(out.transform_fxn, d, ch_)) for ch_ in names_then]
            ok = all(a_.shape == b_.shape and np.array_equal(a_, b_) for a_, b_ in zip(before_t, after_t))
            ok = ok and (reported is None or list(out.mef_channels) == reported)
        finally:
            chans.reverse()
        obs.claim('stable', ok, "the transformation returned earlier changed when the caller reordered its own channel list")
    if mef_snapshot is not None:
        obs.claim('input_intact', np.array_equal(mef_snapshot, np.asarray(mef_values, dtype=float), equal_nan=True),
                  "the caller's array of manufacturer values was modified")
