"""C01 -- loading an FCS file returns exactly the events recorded in it."""
import math
import os

import numpy as np
from hypothesis import strategies as st

from pbt import fcsgen
from pbt.runner import workdir
from pbt.samples import call, raised, native

ID = 'C01'
LEVEL = 'exploration'
ENGINES = ['hypothesis', 'curated layouts (8-digit offsets)']
RULE = ('Hypothesis draws an event matrix (0..40 events x 1..6, sometimes 7..12, parameters; cells from {0, 2^w-1, 2^(w-1), '
        'alternating-bit patterns, range-1, range, uniform} for integers, IEEE bit patterns incl. +-0, subnormals, '
        '+-inf, extremes for floats) and a layout: version {2.0,3.0,3.1} x datatype {I,F,D} x byte order (both '
        'spellings) x per-parameter widths from {8..64} (all-equal boosted) x range {2^w, smaller power of two, '
        'non-power of two} x DATA offsets in HEADER or TEXT only x end = last byte or one past x random padding '
        'between segments x delimiter; encoded by the independent writer, loaded through FCSFile and FCSData. '
        'A second arm generates unsupported layouts.  Non-trivial = N>=2, D>=2 and at least one of: '
        'little-endian, mixed widths, width not in {16,32}, TEXT-only offsets, one-past end, non-power-of-two '
        'range, F/D.')
ASSUMPTIONS = ['independent writer pbt/fcsgen.py (int.to_bytes / bit patterns)',
               'non-power-of-two ranges are kept where ceil(log2 R) is exact in float arithmetic; integer ranges '
               'never exceed 2^width (the statement quantifies over ranges up to 2^w)']
BUDGET = {
    'quick': dict(examples=4000, time_s=300, fuzz=dict(workers=4, runs=500, max_s=60)),
    'thorough': dict(examples=200000, time_s=2400, fuzz=dict(workers=8, runs=6000, max_s=300)),
}

WIDTHS = [8, 16, 24, 32, 40, 48, 56, 64]


@st.composite
def _int_cell(draw, w, R):
    full = (1 << w) - 1
    pats = [0, full, 1 << (w - 1), 0x5555555555555555 & full, 0xAAAAAAAAAAAAAAAA & full, min(R - 1, full),
            min(R, full), 1, full - 1]
    return draw(st.one_of(st.sampled_from(pats), st.integers(0, full), st.integers(0, min(R, full))))


F32 = [0x00000000, 0x80000000, 0x00000001, 0x7f7fffff, 0xff7fffff, 0x7f800000, 0xff800000, 0x3f800000, 0x00800000]
F64 = [0x0, 0x8000000000000000, 0x1, 0x7fefffffffffffff, 0xffefffffffffffff, 0x7ff0000000000000,
       0xfff0000000000000, 0x3ff0000000000000, 0x0010000000000000]


def _not_nan32(b):
    return not ((b >> 23) & 0xff == 0xff and b & 0x7fffff)


def _not_nan64(b):
    return not ((b >> 52) & 0x7ff == 0x7ff and b & 0xfffffffffffff)


@st.composite
def _layout(draw, d_strategy=None, n_strategy=None, widths_pool=None, narrow=None):
    version = draw(st.sampled_from(['FCS2.0', 'FCS3.0', 'FCS3.1']))
    dt = draw(st.sampled_from(['I', 'I', 'I', 'F', 'D']))
    D = draw(d_strategy or st.one_of(st.integers(1, 6), st.integers(1, 6), st.integers(1, 6), st.integers(7, 12)))
    N = draw(n_strategy or st.one_of(st.integers(2, 40), st.integers(2, 40), st.integers(0, 40)))
    WIDTHS = widths_pool or globals()['WIDTHS']
    little = draw(st.booleans())
    byteord = draw(st.sampled_from(['1,2,3,4', '1,2'] if little else ['4,3,2,1', '2,1']))
    if dt == 'I':
        if draw(st.booleans()):
            widths = [draw(st.sampled_from(WIDTHS))] * D
        else:
            widths = [draw(st.sampled_from(WIDTHS)) for _ in range(D)]
        # (narrow: words of one size whose ranges would all fit into words of half that size)
        narrow = bool(narrow is not None and draw(narrow))
        if narrow:
            widths = [draw(st.sampled_from([w for w in WIDTHS if w >= 16 and w % 16 == 0] or WIDTHS))] * D
        ranges = []
        for w in widths:
            kind = draw(st.sampled_from(['full', 'full', 'smaller_pow2', 'non_pow2']))
            if narrow:
                R = (1 << draw(st.integers(1, w // 2))) - draw(st.sampled_from([0, 0, 1]))
                R = max(R, 2)
            elif kind == 'full':
                R = 1 << w
            elif kind == 'smaller_pow2':
                R = 1 << draw(st.integers(1, w))
            else:
                k = draw(st.integers(2, min(w, 40)))
                R = draw(st.integers((1 << (k - 1)) + 1, (1 << k) - 1)) if k > 2 else 3
                if k > 24:
                    # keep away from the powers of two, where float log2 could round across an integer
                    R = max((1 << (k - 1)) + (1 << (k - 20)), min(R, (1 << k) - (1 << (k - 20))))
            ranges.append(R)
        events = [[draw(_int_cell(w, R)) for w, R in zip(widths, ranges)] for _ in range(N)]
    else:
        w = 32 if dt == 'F' else 64
        widths = [w] * D
        ranges = [draw(st.sampled_from([1024, 262144, 1, 100000])) for _ in range(D)]
        if dt == 'F':
            cell = st.one_of(st.sampled_from(F32), st.integers(0, 2 ** 32 - 1).filter(_not_nan32))
        else:
            cell = st.one_of(st.sampled_from(F64), st.integers(0, 2 ** 64 - 1).filter(_not_nan64))
        events = [[draw(cell) for _ in range(D)] for _ in range(N)]
    spec = dict(version=version, datatype=dt, byteord=byteord, little=little, widths=widths, ranges=ranges,
                events=events, delim=draw(st.sampled_from(['/', '|', '\x0c', '*', ','])),
                offsets_in=draw(st.sampled_from(['header', 'text'])) if version != 'FCS2.0' else 'header',
                end_plus_one=draw(st.booleans()),
                pad=[draw(st.integers(0, 40)), draw(st.integers(0, 40)), draw(st.integers(0, 40))],
                pad_seed=draw(st.one_of(st.none(), st.integers(0, 2 ** 16))), trail=draw(st.integers(0, 3)),
                blank_analysis=draw(st.booleans()), num_pad=draw(st.sampled_from([None, None, 'blank_left', 'blank_right'])))
    return spec


@st.composite
def _unsupported(draw):
    spec = draw(_layout())
    kind = draw(st.sampled_from(['mode', 'ascii', 'unaligned', 'byteord', 'byteord', 'byteord', 'float_width', 'too_wide']))
    D = len(spec['widths'])
    if kind == 'mode':
        spec['mode'] = draw(st.sampled_from(['H', 'C', 'U']))
    elif kind == 'ascii':
        spec['datatype_print'] = 'A'
    elif kind == 'unaligned':
        spec.update(datatype='I', widths_print=[draw(st.sampled_from([10, 12, 20, 4, 7]))] + [16] * (D - 1))
    elif kind == 'too_wide':
        spec.update(datatype='I', widths_print=[draw(st.sampled_from([72, 128]))] + [16] * (D - 1))
    elif kind == 'byteord':
        import itertools
        mixed4 = [','.join(p_) for p_ in itertools.permutations('1234') if ','.join(p_) not in ('1,2,3,4', '4,3,2,1')]
        spec['byteord'] = draw(st.one_of(st.sampled_from(['3,4,1,2', '2,1,4,3', '1,2,3', '4,3,2,1,0', '1,3,2', '2,4', '1,1', '0,1']),
                                         st.sampled_from(mixed4)))      # every mixed order of four bytes
    else:
        if spec['datatype'] == 'F':
            spec['widths_print'] = [64] * D
        elif spec['datatype'] == 'D':
            spec['widths_print'] = [32] * D
        else:
            spec['datatype_print'] = draw(st.sampled_from(['F', 'D']))
            spec['widths_print'] = [16] * D
    spec['unsupported'] = kind
    return spec


def strategy(tier):
    return st.one_of(_layout(), _layout(), _layout(), _layout(), _unsupported())


# ----------------------------------------------------------------------------------------------
# curated layouts: DATA far into the file, so that the 8-character HEADER fields are completely filled
# (offsets of 8 digits) or cannot hold the offsets at all (FCS3.x: zeros in the HEADER, offsets in TEXT)
# ----------------------------------------------------------------------------------------------

def curated(tier):
    jobs = []
    base = dict(byteord='1,2,3,4', little=True, delim='/', pad_seed=None, trail=0, blank_analysis=False)
    ev16 = [[1, 65535, 258], [40000, 0, 513], [7, 8, 9]]
    for version, offsets_in, gap in (('FCS2.0', 'header', 10 ** 7), ('FCS3.0', 'header', 10 ** 7 + 12345),
                                     ('FCS3.1', 'text', 10 ** 7), ('FCS3.0', 'header', 99999000)) + (
                                    (('FCS3.1', 'text', 10 ** 8 + 77),) if tier == 'thorough' else ()):
        for end_plus_one in (False, True):
            jobs.append(dict(base, version=version, datatype='I', widths=[16, 16, 16], ranges=[65536, 65536, 1024],
                             events=ev16, offsets_in=offsets_in, end_plus_one=end_plus_one, pad=[3, gap, 5],
                             curated='far_data'))
    # more events than 2**16, in a layout decoded by the generic (mixed / odd width) path
    rng = np.random.Generator(np.random.PCG64(3))
    big = np.column_stack([rng.integers(0, 65536, 70001), rng.integers(0, 2 ** 24, 70001)]).tolist()
    for little in (True, False):
        jobs.append(dict(base, little=little, byteord='1,2,3,4' if little else '4,3,2,1', version='FCS3.0', datatype='I',
                         widths=[16, 24], ranges=[65536, 2 ** 24], events=big, offsets_in='header', end_plus_one=False,
                         pad=[0, 4, 0], curated='many_events'))
    # TEXT segments that begin late or are long: the segment straddles byte 4096, 8192, 16384 or 65536 of the file
    # (buffer sizes a reader may work with), once through padding in front of TEXT, once through many parameters
    for version, offsets_in in (('FCS2.0', 'header'), ('FCS3.0', 'text'), ('FCS3.1', 'header')):
        for boundary in (4096, 8192, 16384, 65536):
            jobs.append(dict(base, version=version, datatype='I', widths=[16, 16, 16], ranges=[65536, 65536, 1024],
                             events=ev16, offsets_in=offsets_in, end_plus_one=False, pad=[boundary - 58 - 60, 2, 0],
                             curated='late_text'))
    for D in (120, 230, 460):
        wide = [[(7 * i + j) % 1024 for j in range(D)] for i in range(5)]
        jobs.append(dict(base, version='FCS3.0', datatype='I', widths=[16] * D, ranges=[1024] * D, events=wide,
                         offsets_in='header' if D != 230 else 'text', end_plus_one=False, pad=[0, 1, 0], curated='long_text'))
    return jobs


def exhaustive_jobs(tier):
    return curated(tier)


def run_job(job):
    from pbt.runner import Obs
    obs = Obs()
    try:
        check(job, obs)
    except Exception as e:
        obs.failures.append(('crash', 'curated layout: %s: %s' % (type(e).__name__, e)))
    return dict(evaluations=1, nontrivial=1, failures=[(t, m, job) for t, m in obs.failures[:5]],
                labels={'curated:far_data': 1}, claims=dict(obs.claims), samples=[], complete=True)


def _write(spec, name):
    """Apply the *_print overrides of the unsupported arm through text_over, then write."""
    s = dict(spec)
    over = dict(s.get('text_over') or {})
    if 'datatype_print' in s:
        over['$DATATYPE'] = s['datatype_print']
    if 'widths_print' in s:
        for i, w in enumerate(s['widths_print']):
            over['$P%dB' % (i + 1)] = str(w)
    s['text_over'] = over
    path = os.path.join(workdir(), name)
    fcsgen.write(path, s)
    return path


def expected_int(v, R):
    bits = int(math.ceil(math.log2(R)))
    return v & ((1 << bits) - 1)


def check(case, obs):
    import FlowCal.io
    spec = case
    path = _write(spec, 'c01.fcs')
    N, D = len(spec['events']), len(spec['widths'])
    if spec.get('unsupported'):
        obs.label('unsupported:' + spec['unsupported'])
        obs.nontrivial = True
        f = call(FlowCal.io.FCSFile, path)
        d = call(FlowCal.io.FCSData, path)
        obs.claim('refuse', raised(f) and raised(d), lambda: 'unsupported layout (%s) was decoded' % spec['unsupported'])
        return
    dt = spec['datatype']
    widths = spec['widths']
    mixed = len(set(widths)) > 1
    nonpow2 = dt == 'I' and any(R & (R - 1) for R in spec['ranges'])
    obs.nontrivial = N >= 2 and D >= 2 and (spec['little'] or mixed or any(w not in (16, 32) for w in widths)
                                           or spec['offsets_in'] == 'text' or spec['end_plus_one'] or nonpow2
                                           or dt in 'FD')
    obs.label('dt:' + dt, 'little' if spec['little'] else 'big', 'byteord:' + spec['byteord'],
              'mixed_widths' if mixed else ('uniform_%d' % widths[0] if dt == 'I' else 'float'),
              'offsets:' + spec['offsets_in'], 'end+1' if spec['end_plus_one'] else 'end_last',
              'N=0' if N == 0 else ('N=1' if N == 1 else 'N>1'), spec['version'],
              'nonpow2_range' if nonpow2 else 'pow2_range')
    f = call(FlowCal.io.FCSFile, path)
    d = call(FlowCal.io.FCSData, path)
    if not obs.claim('loads', not raised(f) and not raised(d), lambda: 'supported layout refused: %r / %r' % (f, d)):
        return
    fa = np.asarray(f.data)
    da = np.asarray(d)
    if not obs.claim('shape', fa.shape == (N, D) and da.shape == (N, D) and d.shape == (N, D),
                     lambda: 'shape %r / %r, expected %r' % (fa.shape, da.shape, (N, D))):
        return
    obs.claim('view', fa.dtype == da.dtype and np.array_equal(native(fa).view(np.uint8), native(da).view(np.uint8)),
              'FCSData values differ from FCSFile.data')
    if dt == 'I':
        ok = fa.dtype.kind == 'u'
        bad = None
        if ok:
            for i in range(N):
                for j in range(D):
                    e = expected_int(spec['events'][i][j], spec['ranges'][j])
                    if int(fa[i, j]) != e:
                        bad = (i, j, spec['events'][i][j], e, int(fa[i, j]))
                        ok = False
                        break
                if not ok:
                    break
        obs.claim('values', ok, lambda: 'dtype %s; cell (row, col, written, expected, read) = %r; widths %r ranges %r %s' % (
            fa.dtype, bad, widths, spec['ranges'], spec['byteord']))
        obs.claim('dtype', fa.dtype.itemsize * 8 >= max(widths), 'result type narrower than the widest parameter')
    else:
        u = 'u4' if dt == 'F' else 'u8'
        ok = fa.dtype.kind == 'f' and fa.dtype.itemsize == (4 if dt == 'F' else 8)
        if ok and N:
            got = native(fa).view(u)
            exp = np.array(spec['events'], dtype=u).reshape((N, D))
            ok = bool(np.array_equal(got, exp))
        obs.claim('values', ok, lambda: 'float cells not bit-identical (dtype %s)' % fa.dtype)
    if N and not spec.get('curated'):
        snap = native(da).copy()
        w = call(d.__setitem__, (0, 0), 1)          # the first sample is edited in place ...
        d2 = call(FlowCal.io.FCSData, path)          # ... and the same, unchanged file is loaded again
        obs.claim('values', not raised(d2) and np.array_equal(native(np.asarray(d2)).view(np.uint8), snap.view(np.uint8)),
                  lambda: 'a second load of the unchanged file differs from the first load (first sample edited in place: %r)' % (w,))
