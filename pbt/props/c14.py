"""C14 -- TEXT keywords and values are returned exactly as written, or rejected."""
import io
import itertools
import os
import warnings

from hypothesis import strategies as st

from pbt import fcsgen
from pbt.runner import workdir
from pbt.samples import call, raised

ID = 'C14'
LEVEL = 'exploration'
ENGINES = ['exhaustive enumeration', 'hypothesis']
RULE = ('(a) every string over {delimiter,a,b} up to length L (quick 11, thorough 14) parsed as primary '
        '(delimiter inferred / given) and supplemental segment, compared with an independent left-to-right '
        'tokenizer; (b) Hypothesis: arbitrary strings over a richer alphabet (length<=48) against the same '
        'tokenizer, keyword dictionaries encoded with delimiter doubling then decoded (every printable '
        'delimiter, junk before/after the segment), and dictionaries split over TEXT / supplemental TEXT / '
        'ANALYSIS of a generated file read through FCSFile and FCSData.  Non-trivial = the string has a '
        'delimiter run of length>=2, or a key/value contains or ends with the delimiter.')
ASSUMPTIONS = ['reference tokenizer pbt/props/c14.py:ref_tokenize (written from the FCS escaping rule)',
               'independent writer pbt/fcsgen.py for the through-file arm',
               "alphabet {delimiter,a,b} is complete for the parser's control flow (it only tests "
               "equality with the delimiter)"]
BUDGET = {
    'quick': dict(examples=6000, time_s=240, L=11, fuzz=dict(workers=4, runs=1500, max_s=60)),
    'thorough': dict(examples=200000, time_s=1500, L=14, fuzz=dict(workers=8, runs=40000, max_s=400)),
}


# ----------------------------------------------------------------------------------------------
# reference tokenizer
# ----------------------------------------------------------------------------------------------

def ref_tokenize(s, D, supplemental):
    """Left-to-right reading of a TEXT-like segment.

    Returns ('empty',) | ('ok', dict) | ('err', why) | ('tol', tokens, cur, k)
    where 'tol' is the one tolerated ill-formed ending: the last token is followed by an even run of
    k delimiters at the end of the segment.
    """
    if s == '':
        return ('empty',)
    if not supplemental and s[0] != D:
        return ('err', 'primary segment does not start with the delimiter')
    last = s.rfind(D)
    if last == -1:
        return ('ok', {})                      # supplemental segment without any delimiter
    body = s[:last + 1]                        # everything after the last delimiter is dropped
    n = len(body)
    j = 0
    while j < n and body[j] == D:
        j += 1
    if j == n:                                 # nothing but delimiters
        return ('ok', {}) if j == 1 else ('err', 'only delimiters')
    if j > 1 or (j != 1 and not supplemental):
        return ('err', 'first keyword starts with the delimiter')
    i = j
    tokens = []
    cur = ''
    while i < n:
        c = body[i]
        if c != D:
            cur += c
            i += 1
            continue
        k = 0
        while i < n and body[i] == D:
            k += 1
            i += 1
        if i == n and k % 2 == 0:
            return ('tol', tokens, cur, k)
        cur += D * (k // 2)
        if k % 2 == 1:
            tokens.append(cur)
            cur = ''
    if len(tokens) % 2:
        return ('err', 'unpaired key or value')
    return ('ok', dict(zip(tokens[0::2], tokens[1::2])))


def _uw(w):
    # the reader's own warnings are UserWarnings; a ResourceWarning raised by the garbage collector while the block
    # is active (an earlier case's file object being finalised) is not the reader speaking
    return [x for x in w if issubclass(x.category, UserWarning)]


def real_parse(raw, begin, end, delim, supplemental):
    import FlowCal.io
    with warnings.catch_warnings(record=True) as w:
        warnings.simplefilter('always')
        try:
            r = FlowCal.io.read_fcs_text_segment(io.BytesIO(raw), begin, end, delim=delim,
                                                 supplemental=supplemental)
        except ValueError as e:
            return ('err', str(e))
        except Exception as e:                 # any other exception type is not a clean refusal
            return ('exc', '%s: %s' % (type(e).__name__, e))
    return ('warn' if _uw(w) else 'ok', r[0], r[1])


def compare(s, D, supplemental, X):
    """Compare parser outcome X with the reference on string s.  Returns (tag, msg) or None."""
    R = ref_tokenize(s, D, supplemental)
    if X[0] == 'exc':
        return ('reject', 'non-ValueError exception %s' % X[1])
    if R[0] == 'empty':
        if not (X[0] == 'ok' and X[1] == {} and X[2] is None):
            return ('empty', 'empty segment gave %r' % (X,))
    elif R[0] == 'ok':
        if X[0] != 'ok':
            return ('agree', 'well-formed segment %r not read silently: %r (expected %r)' % (s, X, R[1]))
        if X[1] != R[1]:
            return ('agree', 'segment %r read as %r, reference %r' % (s, X[1], R[1]))
        if X[2] != D:
            return ('agree', 'segment %r: delimiter reported %r' % (s, X[2]))
    elif R[0] == 'err':
        if X[0] != 'err':
            return ('reject', 'ill-formed segment %r (%s) accepted as %r' % (s, R[1], X))
    else:                                       # tolerated even final run
        _, tokens, cur, k = R
        if X[0] == 'ok':
            return ('tolerated', 'segment %r ends with an even delimiter run but was read silently: %r'
                    % (s, X))
        if X[0] == 'warn':
            allowed = []
            if (len(tokens) + 1) % 2 == 0 and cur != '':
                for j in range(k // 2 + 1):
                    t = tokens + [cur + D * j]
                    allowed.append(dict(zip(t[0::2], t[1::2])))
            if X[1] not in allowed:
                return ('tolerated', 'segment %r read (with warning) as %r; allowed %r' % (s, X[1], allowed))
    return None


# ----------------------------------------------------------------------------------------------
# (a) exhaustive enumeration
# ----------------------------------------------------------------------------------------------

SYMS = '/ab'
CLAIM_OF = {'ok': 'agree', 'err': 'reject', 'tol': 'tolerated', 'empty': 'empty'}
CH = 9       # suffix length enumerated inside one job


def exhaustive_jobs(tier):
    L = BUDGET[tier]['L']
    jobs = []
    for n in range(0, L + 1):
        p = max(0, n - CH)
        for prefix in itertools.product(SYMS, repeat=p):
            jobs.append((n, ''.join(prefix)))
    return jobs


def run_job(job):
    n, prefix = job
    D = '/'
    ev = 0
    nontriv = 0
    failures = []
    labels = {}
    claims = {}
    samples = []
    for t in itertools.product(SYMS, repeat=n - len(prefix)):
        s = prefix + ''.join(t)
        raw = s.encode('latin-1')
        nt = '//' in s
        for mode in ('primary_inferred', 'primary_given', 'supplemental'):
            if mode == 'primary_inferred':
                if s and s[0] != D:
                    continue        # inferred delimiter would be a/b: covered by symmetry
                X = real_parse(raw, 0, len(raw) - 1, None, False)
                sup = False
            elif mode == 'primary_given':
                X = real_parse(raw, 0, len(raw) - 1, D, False)
                sup = False
            else:
                X = real_parse(raw, 0, len(raw) - 1, D, True)
                sup = True
            ev += 1
            R0 = ref_tokenize(s, D, sup)[0]
            key = 'ref_%s/parser_%s' % (R0, X[0])
            labels[key] = labels.get(key, 0) + 1
            ctag = CLAIM_OF[R0]
            claims[ctag] = claims.get(ctag, 0) + 1
            if nt:
                nontriv += 1
                if len(samples) < 2 and n >= 6 and R0 in ('ok', 'tol'):
                    samples.append(dict(arm='enumerated', s=s, mode=mode))
            bad = compare(s, D, sup, X)
            if bad is not None and len(failures) < 20:
                failures.append((bad[0], bad[1], dict(arm='string', s=s, delim=D, mode=mode,
                                                      prefix='', suffix='')))
    return dict(evaluations=ev, nontrivial=nontriv, failures=failures, labels=labels, claims=claims,
                samples=samples, complete=True)


# ----------------------------------------------------------------------------------------------
# (b) Hypothesis arms
# ----------------------------------------------------------------------------------------------

DELIMS = [chr(c) for c in range(33, 127)] + ['\x0c', '\x1e', '\t', '\x00', ' ', '\xa7']
_TEXT_ALPHA = [chr(c) for c in range(32, 127)] + [chr(c) for c in range(0xa1, 0x100)]


def _token(delim):
    """Non-empty text that may contain / end with the delimiter but never starts with it."""
    other = st.sampled_from([c for c in _TEXT_ALPHA if c != delim])
    anyc = st.one_of(other, st.just(delim), other)
    return st.builds(lambda a, b: a + ''.join(b), other, st.lists(anyc, max_size=8))


@st.composite
def _pairs(draw, delim, max_size=8, prefix=''):
    keys = draw(st.lists(_token(delim), max_size=max_size, unique=True))
    return [[prefix + k, draw(_token(delim))] for k in keys]


@st.composite
def _arm_roundtrip(draw):
    delim = draw(st.sampled_from(DELIMS))
    pairs = draw(_pairs(delim))
    mode = draw(st.sampled_from(['primary_inferred', 'primary_given', 'supp_lead', 'supp_nolead']))
    other = [c for c in 'xyz \x00\xff' if c != delim]
    tail = draw(st.text(alphabet=other, max_size=3))
    return dict(arm='roundtrip', delim=delim, pairs=pairs, mode=mode,
                prefix=draw(st.text(alphabet=other + [delim], max_size=5)),
                suffix=draw(st.text(alphabet=other + [delim], max_size=5)), tail=tail)


@st.composite
def _arm_string(draw):
    delim = draw(st.sampled_from(['/', '|', '\x0c', '*', '\\', 'a']))
    others = [c for c in 'kv1$ \xe9' if c != delim]
    # runs of delimiters of drawn length interleaved with short words: reaches long runs and many tokens
    n = draw(st.integers(0, 10))
    parts = []
    if draw(st.booleans()):
        parts.append(delim * draw(st.integers(1, 3)))
    for _ in range(n):
        parts.append(draw(st.text(alphabet=others, min_size=1, max_size=3)))
        parts.append(delim * draw(st.sampled_from([1, 1, 1, 2, 2, 3, 4, 5, 6, 7])))
    if draw(st.booleans()):
        parts.append(draw(st.text(alphabet=others, max_size=3)))
    s = ''.join(parts)
    mode = draw(st.sampled_from(['primary_inferred', 'primary_given', 'supplemental']))
    return dict(arm='string', s=s, delim=delim, mode=mode,
                prefix=draw(st.text(alphabet=others + [delim], max_size=4)),
                suffix=draw(st.text(alphabet=others + [delim], max_size=4)))


@st.composite
def _arm_file(draw):
    delim = draw(st.sampled_from(['/', '|', '\x0c', '*', '\\', ',', '!', '\x1e']))
    version = draw(st.sampled_from(['FCS2.0', 'FCS3.0', 'FCS3.1']))
    extra = draw(_pairs(delim, 5, prefix='KP'))
    stext = draw(st.none() | _pairs(delim, 4, prefix='KS')) if version != 'FCS2.0' else None
    analysis = draw(st.none() | _pairs(delim, 4, prefix='KA'))
    names_tok = draw(st.lists(_token(delim), min_size=2, max_size=2, unique=True))
    stext_raw = None
    if version != 'FCS2.0' and draw(st.sampled_from([True, False, False, False])):
        # a supplemental segment written verbatim: short words and runs of the delimiter, well-formed or not
        others = [c for c in 'kv1$ ' if c != delim]
        parts = [delim * draw(st.integers(0, 2))]
        for _ in range(draw(st.integers(1, 5))):
            parts.append(draw(st.text(alphabet=others, min_size=1, max_size=3)))
            parts.append(delim * draw(st.sampled_from([1, 1, 1, 2, 2, 3])))
        parts.append(draw(st.text(alphabet=others, max_size=2)))
        stext_raw = ''.join(parts)
        stext = None
    if draw(st.sampled_from([True, False, False, False])):
        # vendor keywords some readers interpret: what the file says is what .text holds, nothing more
        if draw(st.booleans()):
            extra = extra + [['CREATOR', 'CellQuest Pro 5.2'], ['BD$WORD13', '450'], ['BD$WORD14', '600']]
        else:
            extra = extra + [['CREATOR', 'FlowJoCollectorsEdition 7.5'], ['CytekP01G', '2.5'], ['CytekP02G', '1']]
    where = draw(st.sampled_from(['before_data', 'before_data', 'behind_data', 'before_text']))
    return dict(arm='file', stext_where=where, num_pad=draw(st.sampled_from([None, None, 'blank_left', 'blank_right'])), stext_raw=stext_raw, delim=delim, version=version, extra=extra, stext=stext, analysis=analysis,
                analysis_in=draw(st.sampled_from(['header', 'text'])) if version != 'FCS2.0' else 'header',
                stext_leading=draw(st.booleans()), analysis_leading=draw(st.booleans()),
                blank_analysis=draw(st.booleans()),
                names=names_tok, pad=[draw(st.integers(0, 9)), draw(st.integers(0, 9)), draw(st.integers(0, 9))],
                pad_seed=draw(st.integers(0, 2 ** 16)), trail=draw(st.integers(0, 5)),
                # the DATA end offset may be written one past the last byte (then it names the first byte of whatever
                # follows DATA directly, e.g. a supplemental TEXT or ANALYSIS segment)
                end_plus_one=draw(st.sampled_from([False, False, True])))


def strategy(tier):
    return st.one_of(_arm_roundtrip(), _arm_string(), _arm_string(), _arm_file())


def _has_inner_delim(pairs, delim):
    return any(delim in k or delim in v for k, v in pairs)


def check(case, obs):
    arm = case['arm']
    obs.label('arm:' + arm)
    if arm == 'string':
        s, D, mode = case['s'], case['delim'], case['mode']
        pre, suf = case.get('prefix', ''), case.get('suffix', '')
        raw = (pre + s + suf).encode('latin-1')
        begin, end = len(pre), len(pre) + len(s) - 1
        sup = mode == 'supplemental'
        if mode == 'primary_inferred' and (not s or s[0] != D):
            # the parser will infer another delimiter; the reference must use the same one
            D = s[0] if s else D
        X = real_parse(raw, begin, end, None if mode == 'primary_inferred' else D, sup)
        R0 = ref_tokenize(s, D, sup)[0]
        obs.label('ref_%s/parser_%s' % (R0, X[0]))
        obs.nontrivial = (D + D) in s
        bad = compare(s, D, sup, X)
        obs.claim(CLAIM_OF[R0]
                  if bad is None else bad[0], bad is None, bad[1] if bad else '')
    elif arm == 'roundtrip':
        D, pairs, mode = case['delim'], case['pairs'], case['mode']
        seg = fcsgen.encode_pairs(pairs, D, leading=(mode != 'supp_nolead')) + case.get('tail', '')
        if mode == 'supp_nolead' and not pairs:
            seg = case.get('tail', '')
        pre, suf = case.get('prefix', ''), case.get('suffix', '')
        raw = (pre + seg + suf).encode('latin-1')
        X = real_parse(raw, len(pre), len(pre) + len(seg) - 1,
                       None if mode == 'primary_inferred' else D, mode.startswith('supp'))
        obs.nontrivial = _has_inner_delim(pairs, D)
        if obs.nontrivial:
            obs.label('inner_or_trailing_delimiter')
        if seg == '':
            obs.claim('empty', X[0] == 'ok' and X[1] == {} and X[2] is None, 'empty segment gave %r' % (X,))
        else:
            obs.claim('round_trip', X[0] == 'ok' and X[1] == dict(pairs),
                      lambda: 'wrote %r with delimiter %r (segment %r), read %r' % (pairs, D, seg, X))
    elif arm == 'file':
        import FlowCal.io
        D = case['delim']
        spec = dict(version=case['version'], delim=D, widths=[16, 16], ranges=[1024, 1024],
                    events=[[1, 2], [3, 4], [5, 6]], names=case['names'], extra=case['extra'],
                    stext=case['stext'], analysis=case['analysis'], analysis_in=case['analysis_in'],
                    stext_leading=case['stext_leading'], analysis_leading=case['analysis_leading'],
                    blank_analysis=case['blank_analysis'], pad=case['pad'], pad_seed=case['pad_seed'],
                    trail=case['trail'], num_pad=case.get('num_pad'), end_plus_one=bool(case.get('end_plus_one')),
                    stext_after=case.get('stext_where') == 'behind_data', stext_first=case.get('stext_where') == 'before_text')
        if spec['end_plus_one'] and case['pad_seed'] % 2 == 0:
            # ... directly: no padding between DATA and the segment behind it
            spec['pad'] = [case['pad'][0], case['pad'][1], 0]
            obs.label('data_end_names_next_segment')
        path = os.path.join(workdir(), 'c14.fcs')
        if case.get('stext_raw') is not None:
            # a supplemental segment given verbatim: the file is read iff the reference reads the segment, and then
            # its pairs are merged; an ill-formed segment makes the load fail (never a silent load without it)
            spec['stext_raw'] = case['stext_raw']
            _, info = fcsgen.write(path, spec)
            R = ref_tokenize(case['stext_raw'], D, True)
            obs.label('stext_raw:' + R[0])
            obs.nontrivial = True
            with warnings.catch_warnings(record=True) as w:
                warnings.simplefilter('always')
                f = call(FlowCal.io.FCSFile, path)
                d = call(FlowCal.io.FCSData, path)
            main = dict(info['pairs'])
            if R[0] == 'err':
                obs.claim('reject', raised(f) and raised(d),
                          lambda: 'file with ill-formed supplemental TEXT %r (%s) was loaded' % (case['stext_raw'], R[1]))
            elif R[0] == 'ok':
                exp = dict(main)
                exp.update(R[1])
                obs.claim('merged', not raised(f) and not raised(d) and f.text == exp and d.text == exp,
                          lambda: 'supplemental TEXT %r: text %r, expected main keywords + %r' % (
                              case['stext_raw'], f if raised(f) else {k: v for k, v in f.text.items() if main.get(k) != v}, R[1]))
            else:
                # tolerated ending: refused, or read with a warning; never read silently
                obs.claim('tolerated', raised(f) or bool(_uw(w)),
                          lambda: 'supplemental TEXT %r ends with an even delimiter run but was read silently' % (case['stext_raw'],))
            return
        _, info = fcsgen.write(path, spec)
        exp_text = dict(info['pairs'])
        exp_text.update(dict(case['stext'] or []))
        exp_an = dict(case['analysis'] or [])
        allp = list(case['extra']) + list(case['stext'] or []) + list(case['analysis'] or [])
        obs.nontrivial = _has_inner_delim(allp, D) and (case['stext'] is not None or case['analysis'] is not None)
        obs.label('stext' if case['stext'] is not None else 'no_stext',
                  'analysis_' + case['analysis_in'] if case['analysis'] is not None else 'no_analysis')
        with warnings.catch_warnings(record=True) as w:
            warnings.simplefilter('always')
            try:
                f = FlowCal.io.FCSFile(path)
                d = FlowCal.io.FCSData(path)
            except Exception as e:
                obs.fail('merged', 'well-formed file refused: %s: %s' % (type(e).__name__, e))
                return
        obs.claim('merged', f.text == exp_text,
                  lambda: 'FCSFile.text differs: missing/changed %r, extra %r' % (
                      {k: v for k, v in exp_text.items() if f.text.get(k) != v},
                      {k: v for k, v in f.text.items() if k not in exp_text}))
        obs.claim('analysis', f.analysis == exp_an, lambda: 'FCSFile.analysis %r != %r' % (f.analysis, exp_an))
        obs.claim('merged', d.text == exp_text and d.analysis == exp_an, 'FCSData.text/analysis differ')
        obs.claim('no_warning', not _uw(w), lambda: 'warning on well-formed file: %s' % [str(x.message) for x in _uw(w)])
        obs.claim('names', tuple(d.channels) == tuple(case['names']), lambda: 'channels %r' % (d.channels,))
    else:
        raise ValueError('unknown arm %r' % arm)
