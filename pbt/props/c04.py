"""C04 -- channel metadata stays aligned with columns under every indexing expression."""
import itertools
import os

import numpy as np
from hypothesis import strategies as st

from pbt import fcsgen
from pbt.runner import workdir
from pbt.samples import call, raised, meta_of

ID = 'C04'
LEVEL = 'exploration'
ENGINES = ['exhaustive enumeration', 'hypothesis']
RULE = ('(a) exhaustive: every key of the grammar rows x cols (rows: int in [-N-1,N], slices with start/stop in '
        '{None,-N-1..N+1} and step in {None,+-1,+-2}, int lists of length 0..2, all boolean masks as arrays and '
        'lists, Ellipsis; cols: absent, int in [-D-1,D], name, unknown name, slices, lists and tuples of 0..2 '
        'names/ints mixed with repeats, Ellipsis, all boolean lists, NumPy ints / int arrays / bool arrays, '
        'out-of-range lists) on every shape N,D<=3; (b) Hypothesis: shapes up to 12x8, chains of 1..3 keys (2-D '
        'preserving prefixes), None keys, and assignments through the same keys (scalar or correctly shaped '
        'values).  Non-trivial = key with a row and a column part and a negative index, step != 1, mixed list, '
        'repeat, or chain length >= 2.')
ASSUMPTIONS = ["numpy's own indexing of the plain array with translated column positions is the stated reference",
               'cells are distinct and encode their origin (100*row + col + 1), so alignment of any result with its '
               'channel names can be checked without a model ("other forms")',
               'a 1-D result may be a row (one entry per channel) or a column (one channel): both readings accepted',
               'chains continue only from 2-D intermediates (a 1-D sample no longer says whether its axis is events '
               'or channels)']
BUDGET = {
    'quick': dict(examples=3000, time_s=300, maxshape=3),
    'thorough': dict(examples=150000, time_s=2400, maxshape=3, fuzz=dict(workers=8, runs=6000, max_s=300)),
}


# ----------------------------------------------------------------------------------------------
# sample with distinct cells and distinct per-channel metadata
# ----------------------------------------------------------------------------------------------

def chan_names(D):
    """Duplicate-free names, some of which differ only in letter case ('ch0', 'CH0', 'ch2', 'CH2', ...)."""
    return [('ch%d' % (j - 1)).upper() if j % 2 else 'ch%d' % j for j in range(D)]


def col_from_name(name):
    j = int(name[2:])
    return j + 1 if name.isupper() else j


_HANDLES = []


def make(N, D, name='c04.fcs', via='path'):
    import FlowCal.io
    names = chan_names(D)
    mat = [[100 * i + j + 1 for j in range(D)] for i in range(N)]
    spec = dict(version='FCS3.0', datatype='I', byteord='4,3,2,1', widths=[16] * D, ranges=[2048 * (j + 1) for j in range(D)],
                names=names, events=mat, pne=['%d,1' % j if j else '0,0' for j in range(D)],
                pnv=[str(100 + j) for j in range(D)], png=[str(1 + j) for j in range(D)], pns=['lab%d' % j for j in range(D)])
    path = os.path.join(workdir(), name)
    fcsgen.write(path, spec)
    if via == 'handle':
        # a sample may be loaded from an open binary file as well as from a path
        while len(_HANDLES) > 4:
            _HANDLES.pop(0).close()
        fh = open(path, 'rb')
        _HANDLES.append(fh)
        d = FlowCal.io.FCSData(fh)
    else:
        d = FlowCal.io.FCSData(path)
    base = np.array(mat, dtype=np.asarray(d).dtype).reshape((N, D))
    meta = [dict(name=names[j], range=[0.0, 2048.0 * (j + 1) - 1], resolution=2048 * (j + 1),
                 at=(float(j), 1.0) if j else (0.0, 0.0), gain=1.0 + j, voltage=100.0 + j, label='lab%d' % j)
            for j in range(D)]
    return d, base, meta


def col_of(v):
    return (int(v) - 1) % 100


def aligned(got, meta_all):
    """Model-free alignment: metadata records are those of the named channels and every cell comes from the
    column its channel name says.  Returns None or a message."""
    names_all = [m['name'] for m in meta_all]
    try:
        gm = meta_of(got)
    except Exception as e:
        return 'metadata accessors fail on the result: %s: %s' % (type(e).__name__, e)
    for m in gm:
        if m['name'] not in names_all or m != meta_all[names_all.index(m['name'])]:
            return 'metadata record %r is not the record of channel %r' % (m, m.get('name'))
    a = np.asarray(got)
    k = len(gm)
    if a.ndim == 0:
        return None
    if a.ndim == 2:
        if a.shape[1] != k:
            return '%d columns but %d channel records' % (a.shape[1], k)
        for j in range(k):
            if any(col_of(v) != col_from_name(gm[j]['name']) for v in a[:, j]):
                return 'column %d holds values of another channel than %r' % (j, gm[j]['name'])
        return None
    if a.ndim == 1:
        as_row = a.shape[0] == k and all(col_of(v) == col_from_name(gm[j]['name']) for j, v in enumerate(a))
        as_col = k == 1 and all(col_of(v) == col_from_name(gm[0]['name']) for v in a)
        if as_row or as_col or (a.shape[0] == 0 and k <= 1):
            return None
        return '1-D result of %d values with channels %r is neither a row nor a column of them' % (a.shape[0], [m['name'] for m in gm])
    return 'result has %d dimensions but still carries channel metadata' % a.ndim


# ----------------------------------------------------------------------------------------------
# keys as data:  ('int', 3) ('slice', [a, b, c]) ('ilist', [...]) ('bmask', [...]) ('blist', [...]) ('ell',)
#                cols additionally ('absent',) ('name', 'ch1') ('list', [...]) ('tuple', [...]) ('npint', 1)
#                ('nparr', [...]) ('npbool', [...]) ('none',)
# ----------------------------------------------------------------------------------------------

def realise(k):
    kind = k[0]
    if kind in ('int', 'name', 'pybool'):
        return k[1]
    if kind == 'slice':
        return slice(*k[1])
    if kind in ('ilist', 'blist', 'list'):
        return list(k[1])
    if kind == 'tuple':
        return tuple(k[1])
    if kind == 'bmask' or kind == 'npbool':
        return np.array(k[1], dtype=bool)
    if kind == 'ell':
        return Ellipsis
    if kind == 'npint':
        return np.int64(k[1])
    if kind == 'nparr':
        return np.array(k[1], dtype=np.int64)
    if kind == 'none':
        return None
    raise ValueError(kind)


def translate_col(ck, names):
    """Column key for the plain-array reference; raises KeyError for unknown names and IndexError for
    positions outside [-D, D-1] (numpy itself does not bounds-check when the other index is empty)."""
    kind = ck[0]
    D = len(names)

    def one(x):
        if isinstance(x, str):
            if x not in names:
                raise KeyError(x)
            return names.index(x)
        if isinstance(x, int) and not isinstance(x, bool) and not (-D <= x < D):
            raise IndexError('position %d out of range' % x)
        return x
    if kind == 'int':
        return one(ck[1])
    if kind == 'name':
        return one(ck[1])
    if kind in ('list', 'tuple'):
        return [one(x) for x in ck[1]]
    return realise(ck)


GRAMMAR_COLS = ('absent', 'int', 'name', 'slice', 'list', 'tuple', 'ell')
OTHER_COLS = ('blist', 'npint', 'nparr', 'npbool', 'none', 'pybool')


def evaluate(d, base, meta, rk, ck):
    """Returns (outcome, failure) where failure is None or (tag, msg).  outcome in {'raise','value'}."""
    names = [m['name'] for m in meta]
    D = len(meta)
    key = realise(rk) if ck[0] == 'absent' else (realise(rk), realise(ck))
    key_before = repr(key)
    # ---- reference
    exp_err = None
    exp = None
    sel = None
    try:
        if ck[0] == 'absent':
            exp = base[realise(rk)]
            sel = list(range(D))
        else:
            ckt = translate_col(ck, names)
            if ck[0] == 'blist' and len(ckt) != D and len(ckt) > 0:
                raise IndexError('boolean column list of another length')
            exp = base[(realise(rk), ckt)]
            s = np.arange(D)[ckt] if not (isinstance(ckt, list) and len(ckt) == 0) else np.arange(D)[[]]
            if isinstance(s, np.ndarray) and s.dtype == bool:
                s = np.flatnonzero(s)
            sel = [int(c) for c in np.atleast_1d(s).ravel()]
    except Exception as e:  # numpy rejects the key, or the name is unknown
        exp_err = type(e).__name__
    got = call(d.__getitem__, key)
    other = ck[0] in OTHER_COLS or rk[0] == 'none'
    desc = 'key (%r, %r) on shape %r' % (rk, ck, base.shape)
    if repr(key) != key_before:
        # the key belongs to the caller (who may use it again on another sample)
        return 'value', ('key_intact', '%s: indexing rewrote the key it was given: %s -> %r' % (desc, key_before, key))
    if exp_err is not None:
        if raised(got):
            return 'raise', None
        if other:
            msg = aligned(got, meta) if hasattr(got, 'channels') else None
            return 'value', (('other_forms', '%s: %s' % (desc, msg)) if msg else None)
        return 'value', ('raise', '%s: plain indexing raises %s but the sample returned %r' % (desc, exp_err, np.shape(got)))
    if raised(got):
        if other:
            return 'raise', None          # refusing a form outside the listed grammar is allowed
        return 'raise', ('values', '%s: refused with %r although plain indexing works' % (desc, got))
    # aliasing as in NumPy: where plain indexing returns a copy, the sample's result is no view of its parent either
    if isinstance(exp, np.ndarray) and isinstance(got, np.ndarray) and exp.size and not np.shares_memory(exp, base) \
            and np.shares_memory(got, d):
        return 'value', ('aliasing', '%s: plain indexing returns a copy but the sample returned a view of its parent' % desc)
    if np.shape(got) != np.shape(exp) or not np.array_equal(np.asarray(got), exp):
        return 'value', ('values', '%s: values %r, plain indexing gives %r' % (desc, np.asarray(got).tolist(), np.asarray(exp).tolist()))
    if np.ndim(exp) == 0:
        if isinstance(got, np.ndarray):
            return 'value', ('scalar', '%s: a single value came back as %r' % (desc, type(got)))
        return 'value', None
    if not hasattr(got, 'channels'):
        if other:
            return 'value', None
        return 'value', ('meta', '%s: result lost its metadata (%r)' % (desc, type(got)))
    msg = aligned(got, meta)
    if msg:
        return 'value', ('other_forms' if other else 'meta', '%s: %s' % (desc, msg))
    if not other or ck[0] in ('blist', 'npint', 'nparr', 'npbool'):
        gm = meta_of(got)
        em = [meta[c] for c in sel]
        if gm != em:
            return 'value', ('other_forms' if other else 'meta', '%s: channels %r, selected columns are %r' % (
                desc, [m['name'] for m in gm], [m['name'] for m in em]))
    return 'value', None


# ----------------------------------------------------------------------------------------------
# (a) exhaustive enumeration for small shapes
# ----------------------------------------------------------------------------------------------

def row_keys(N):
    out = [('int', i) for i in range(-N - 1, N + 1)] + [('npint', i) for i in range(-N, N)]      # e.g. what np.argmax returns
    vals = [None] + list(range(-N - 1, N + 2))
    for a in vals:
        for b in vals:
            for stp in (None, 1, -1, 2, -2):
                out.append(('slice', [a, b, stp]))
    for L in range(0, 3):
        for t in itertools.product(range(-N, N), repeat=L):
            out.append(('ilist', list(t)))
    for t in itertools.product([False, True], repeat=N):
        out.append(('bmask', list(t)))
        out.append(('blist', list(t)))
    out.append(('ell',))
    return out


def col_keys(D, names):
    out = [('absent',)] + [('int', i) for i in range(-D - 1, D + 1)]
    out += [('name', n) for n in names] + [('name', 'zz'), ('name', 'Ch0'), ('name', 'lab0')]   # a label is no name
    vals = [None] + list(range(-D - 1, D + 2))
    for a in vals:
        for b in vals:
            for stp in (None, 1, -1, 2):
                out.append(('slice', [a, b, stp]))
    items = list(range(-D, D)) + names
    for L in range(0, 3):
        for t in itertools.product(items, repeat=L):
            out.append(('list', list(t)))
            if L:
                out.append(('tuple', list(t)))
    out.append(('ell',))
    for t in itertools.product([False, True], repeat=D):
        out.append(('blist', list(t)))
        out.append(('npbool', list(t)))
    out += [('blist', [True] * (D + 1)), ('npint', 0), ('npint', -1), ('nparr', [0]), ('nparr', [D - 1, 0]),
            ('list', [0, D]), ('list', ['zz']), ('list', [names[0], 'zz']), ('list', [names[0], 'lab0']),
            ('tuple', ['lab%d' % (D - 1), 0]), ('none',), ('pybool', True), ('pybool', False)]     # a bare bool is no position
    return out


def exhaustive_jobs(tier):
    m = BUDGET[tier]['maxshape']
    jobs = []
    for N in range(1, m + 1):
        for D in range(1, m + 1):
            nrow = len(row_keys(N))
            step = 40
            for lo in range(0, nrow, step):
                jobs.append((N, D, lo, min(nrow, lo + step)))
    return jobs


def nontrivial_key(rk, ck):
    if ck[0] == 'absent':
        return False
    neg = (rk[0] == 'int' and rk[1] < 0) or (ck[0] == 'int' and ck[1] < 0) or \
          (rk[0] == 'ilist' and any(x < 0 for x in rk[1])) or \
          (ck[0] in ('list', 'tuple') and any(isinstance(x, int) and x < 0 for x in ck[1]))
    step = (rk[0] == 'slice' and rk[1][2] not in (None, 1)) or (ck[0] == 'slice' and ck[1][2] not in (None, 1))
    mixed = ck[0] in ('list', 'tuple') and len({type(x) for x in ck[1]}) > 1
    rep = (ck[0] in ('list', 'tuple') and len(set(map(str, ck[1]))) < len(ck[1])) or \
          (rk[0] == 'ilist' and len(set(rk[1])) < len(rk[1]))
    return neg or step or mixed or rep


def run_job(job):
    N, D, lo, hi = job
    d, base, meta = make(N, D, 'c04e.fcs')
    names = [m['name'] for m in meta]
    rks = row_keys(N)[lo:hi]
    cks = col_keys(D, names)
    ev = nt = 0
    failures = []
    labels = {}
    claims = {}
    samples = []
    for rk in rks:
        for ck in cks:
            outcome, bad = evaluate(d, base, meta, rk, ck)
            ev += 1
            cl = 'rows:%s/cols:%s' % (rk[0], ck[0])
            labels[cl] = labels.get(cl, 0) + 1
            claims[outcome] = claims.get(outcome, 0) + 1
            if nontrivial_key(rk, ck):
                nt += 1
                if len(samples) < 1 and outcome == 'value' and rk[0] == 'slice' and ck[0] == 'list' and len(ck[1]) == 2:
                    samples.append(dict(arm='enumerated', N=N, D=D, chain=[[list(rk), list(ck)]]))
            if bad is not None and len(failures) < 20:
                failures.append((bad[0], bad[1], dict(arm='chain', N=N, D=D, chain=[[list(rk), list(ck)]], assign=None)))
    return dict(evaluations=ev, nontrivial=nt, failures=failures, labels=labels, claims=claims, samples=samples,
                complete=True)


# ----------------------------------------------------------------------------------------------
# (b) Hypothesis: larger shapes, chains, assignment
# ----------------------------------------------------------------------------------------------

@st.composite
def _rowkey(draw, N, keep2d=False):
    kinds = ['slice', 'ilist', 'bmask'] if keep2d else ['int', 'npint', 'slice', 'ilist', 'bmask', 'blist', 'ell', 'slice', 'ilist']
    if N == 0:
        # an intermediate without events: the keys that are legal on an empty axis
        kinds = ['slice', 'ilist', 'bmask'] + ([] if keep2d else ['ell'])
    kind = draw(st.sampled_from(kinds))
    idx = st.integers(-N - 1, N) if not keep2d else st.integers(-N, max(N - 1, -N))
    if kind == 'int':
        return ['int', draw(idx)]
    if kind == 'npint':
        return ['npint', draw(st.integers(-N, N - 1))] if N else ['int', 0]
    if kind == 'slice':
        v = st.one_of(st.none(), st.integers(-N - 2, N + 2))
        return ['slice', [draw(v), draw(v), draw(st.sampled_from([None, 1, -1, 2, -2, 3]))]]
    if kind == 'ilist':
        return ['ilist', draw(st.lists(st.integers(-N, N - 1), max_size=4)) if N else []]
    if kind in ('bmask', 'blist'):
        return [kind, draw(st.lists(st.booleans(), min_size=N, max_size=N))]
    return ['ell']


@st.composite
def _colkey(draw, D, names, keep2d=False):
    kinds = ['absent', 'slice', 'list'] if keep2d else \
        ['absent', 'int', 'name', 'slice', 'list', 'list', 'tuple', 'ell', 'blist', 'npint', 'nparr', 'npbool', 'pybool', 'badname', 'none']
    if D == 0:
        # an intermediate without channels: the keys that are legal on an empty axis
        kind = draw(st.sampled_from(['absent', 'slice', 'list'] + ([] if keep2d else ['ell', 'blist'])))
        if kind == 'slice':
            v = st.one_of(st.none(), st.integers(-2, 2))
            return ['slice', [draw(v), draw(v), draw(st.sampled_from([None, 1, -1, 2]))]]
        return [kind] if kind in ('absent', 'ell') else [kind, []]
    kind = draw(st.sampled_from(kinds))
    item = st.one_of(st.integers(-D, D - 1), st.sampled_from(names))
    if kind == 'absent':
        return ['absent']
    if kind == 'int':
        return ['int', draw(st.integers(-D - 1, D))]
    if kind == 'name':
        return ['name', draw(st.sampled_from(names))]
    if kind == 'badname':
        return draw(st.sampled_from([['name', 'zz'], ['name', 'Ch0'], ['name', 'lab0'], ['list', [0, 'lab%d' % (D - 1)]], ['list', [names[0], 'cH0']], ['list', [names[0], 'zz']], ['list', [0, D]], ['list', [-D - 1]]]))
    if kind == 'slice':
        v = st.one_of(st.none(), st.integers(-D - 2, D + 2))
        return ['slice', [draw(v), draw(v), draw(st.sampled_from([None, 1, -1, 2]))]]
    if kind in ('list', 'tuple'):
        return [kind, draw(st.lists(item, min_size=1 if (kind == 'tuple' or keep2d) else 0, max_size=4))]
    if kind == 'ell':
        return ['ell']
    if kind == 'pybool':
        return ['pybool', draw(st.booleans())]
    if kind in ('blist', 'npbool'):
        return [kind, draw(st.lists(st.booleans(), min_size=D, max_size=D))]
    if kind == 'npint':
        return ['npint', draw(st.integers(-D, D - 1))]
    if kind == 'nparr':
        return ['nparr', draw(st.lists(st.integers(-D, D - 1), min_size=1, max_size=3))]
    return ['none']


@st.composite
def _chain_case(draw):
    N = draw(st.integers(1, 12))
    D = draw(st.integers(1, 8))
    names = chan_names(D)
    L = draw(st.sampled_from([1, 2, 2, 3, 3]))
    chain = []
    n, dd, nm = N, D, list(names)
    for step in range(L):
        last = step == L - 1
        rk = draw(_rowkey(n, keep2d=not last))
        ck = draw(_colkey(dd, nm, keep2d=not last))
        chain.append([rk, ck])
        if not last:
            # shape left by this step (model arithmetic only; metadata is tracked in check())
            probe = np.zeros((n, dd))
            try:
                sub = probe[realise(rk)] if ck[0] == 'absent' else probe[(realise(rk), translate_col(ck, nm))]
            except Exception:
                break
            if sub.ndim != 2:
                break
            if ck[0] != 'absent':
                nm = [nm[c] for c in np.atleast_1d(np.arange(dd)[translate_col(ck, nm)])]
            n, dd = sub.shape
    assign = None
    if draw(st.sampled_from([False, False, True])):
        assign = draw(st.sampled_from(['scalar', 'array', 'self', 'self']))
        if assign == 'self' and dd >= 2 and draw(st.booleans()):
            # a block of rows (slice) of a list of channels: the form in which whole columns are usually written
            v = st.one_of(st.none(), st.integers(-n, n))
            chain[-1] = [['slice', [draw(v), draw(v), draw(st.sampled_from([None, 1, 1, 2]))]],
                         ['list', draw(st.lists(st.one_of(st.integers(0, dd - 1), st.sampled_from(nm)), min_size=1, max_size=min(dd, 4), unique=True))]]
    return dict(arm='chain', N=N, D=D, chain=chain, assign=assign, via=draw(st.sampled_from(['path', 'path', 'handle'])))


@st.composite
def _col_rows_case(draw):
    # one channel of a few events (a 1-D column that is still a sample), then a further selection of events from it
    N = draw(st.integers(1, 6))
    D = draw(st.integers(1, 4))
    c = draw(st.integers(0, D - 1))
    v = st.one_of(st.none(), st.integers(-N, N))
    rk1 = draw(st.one_of(st.tuples(v, v).map(lambda t: ['slice', [t[0], t[1], None]]),
                         st.lists(st.integers(0, N - 1), min_size=0, max_size=3).map(lambda l: ['ilist', l]),
                         st.lists(st.booleans(), min_size=N, max_size=N).map(lambda l: ['bmask', l])))
    k = len(np.zeros(N)[realise(rk1)])
    key2 = draw(st.one_of(st.lists(st.integers(-k, k - 1), min_size=0, max_size=4).map(lambda l: ['ilist', l]) if k else st.just(['ilist', []]),
                          st.tuples(v, v).map(lambda t: ['slice', [t[0], t[1], None]]),
                          st.lists(st.booleans(), min_size=k, max_size=k).map(lambda l: ['bmask', l])))
    if draw(st.booleans()) and k:
        key2 = ['int', draw(st.integers(-k, k - 1))]            # one event of the column, also counted from the end
    # the event key may come with an Ellipsis in front of or behind it (plain indexing treats it as "the rest")
    return dict(arm='col_rows', N=N, D=D, c=c, by_name=draw(st.booleans()), rk1=rk1, key2=key2,
                wrap=draw(st.sampled_from([None, None, 'ell_first', 'ell_last'])))


def strategy(tier):
    return st.one_of(_chain_case(), _chain_case(), _chain_case(), _chain_case(), _col_rows_case())


def _check_col_rows(case, obs):
    N, D, c = case['N'], case['D'], case['c']
    d, base, meta = make(N, D)
    names = [m['name'] for m in meta]
    obs.label('arm:col_rows')
    k1 = realise(tuple(case['rk1']))
    col = call(d.__getitem__, (k1, names[c] if case['by_name'] else c))
    ref = base[k1, c]
    if not obs.claim('values+meta', not raised(col) and np.array_equal(np.asarray(col), ref), lambda: 'column selection: %r' % (col,)):
        return
    k2 = realise(tuple(case['key2']))
    if case.get('wrap') == 'ell_first':
        k2 = (Ellipsis, k2)
    elif case.get('wrap') == 'ell_last':
        k2 = (k2, Ellipsis)
    obs.label('wrap:%s' % case.get('wrap'))
    got = call(col.__getitem__, k2)
    try:
        exp = ref[k2]
    except Exception:
        obs.claim('raise', raised(got), lambda: 'plain indexing refuses %r on %d values but the sample returned %r' % (case['key2'], len(ref), got))
        return
    obs.nontrivial = len(ref) <= 1 or (case['key2'][0] == 'ilist' and len(set(case['key2'][1])) < len(case['key2'][1]))
    # (event key, Ellipsis) on a column is the listed form "events + all channels".  (Ellipsis, key) on a
    # one-dimensional column is read by the sample as (all events, channel key): outside the listed grammar, so a
    # refusal is allowed and an answer must be the plain-indexing values carrying no other channel's record
    wrapped = case.get('wrap') == 'ell_first'
    if wrapped and raised(got):
        obs.claims['raise'] += 1
        return
    if not obs.claim('values', not raised(got) and np.shape(got) == np.shape(exp) and np.array_equal(np.asarray(got), exp),
                     lambda: 'events %r of a column of %d: %r, plain indexing gives %r' % (case['key2'], len(ref), got, exp.tolist())):
        return
    if hasattr(got, 'channels') and np.ndim(got) >= 1:
        gm = call(meta_of, got)
        obs.claim('meta', not raised(gm) and (gm == [meta[c]] or (wrapped and all(m_ == meta[c] for m_ in gm))),
                  lambda: 'events %r of a one-channel column of %d event(s): channel records %r, expected the record of %r only' % (
                      case['key2'], len(ref), [m_.get('name') for m_ in gm] if not raised(gm) else gm, names[c]))


def check(case, obs):
    if case.get('arm') == 'col_rows':
        return _check_col_rows(case, obs)
    N, D = case['N'], case['D']
    d, base, meta = make(N, D, via=case.get('via', 'path'))
    obs.label('loaded_from:' + case.get('via', 'path'))
    chain = [(tuple(rk), tuple(ck)) for rk, ck in case['chain']]
    obs.label('chain_len:%d' % len(chain), 'assign:%s' % case.get('assign'))
    obs.nontrivial = len(chain) >= 2 or nontrivial_key(*chain[-1])
    cur_d, cur_base, cur_meta = d, base, meta
    for step, (rk, ck) in enumerate(chain):
        last = step == len(chain) - 1
        obs.label('rows:%s' % rk[0], 'cols:%s' % ck[0])
        if last and case.get('assign'):
            _check_assign(obs, cur_d, cur_base, cur_meta, rk, ck, case['assign'])
            return
        outcome, bad = evaluate(cur_d, cur_base, cur_meta, rk, ck)
        obs.claims[('raise' if outcome == 'raise' else 'values+meta')] += 1
        if bad is not None:
            obs.fail(bad[0], ('step %d: ' % step) + bad[1])
            return
        if last or outcome == 'raise':
            return
        names = [m['name'] for m in cur_meta]
        key = realise(rk) if ck[0] == 'absent' else (realise(rk), realise(ck))
        nxt = cur_d[key]
        if ck[0] == 'absent':
            nb = cur_base[realise(rk)]
            nm = cur_meta
        else:
            ckt = translate_col(ck, names)
            nb = cur_base[(realise(rk), ckt)]
            nm = [cur_meta[int(c)] for c in np.atleast_1d(np.arange(len(cur_meta))[ckt])]
        if np.ndim(nb) != 2 or not hasattr(nxt, 'channels'):
            return
        cur_d, cur_base, cur_meta = nxt, nb, nm


def _check_assign(obs, d, base, meta, rk, ck, how):
    names = [m['name'] for m in meta]
    key = realise(rk) if ck[0] == 'absent' else (realise(rk), realise(ck))
    model = base.copy()
    exp_err = None
    try:
        mkey = realise(rk) if ck[0] == 'absent' else (realise(rk), translate_col(ck, names))
        if ck[0] == 'blist' and len(ck[1]) != len(meta):
            raise IndexError('boolean column list of another length')
        target = model[mkey]
        val = 9999 if how == 'scalar' else (np.arange(np.size(target)).reshape(np.shape(target)) + 5000).astype(model.dtype)
        model[mkey] = val
    except Exception as e:
        exp_err = type(e).__name__
        val = 9999
    d2 = d.copy()
    if how == 'self' and exp_err is None and np.ndim(target) == 2 and np.shape(target)[1] >= 1 and ck[0] != 'absent':
        # the right-hand side is a view of the sample itself (its first columns, same rows): source and destination
        # may overlap, and the outcome must be that of plain array assignment (which buffers)
        k = np.shape(target)[1]
        rr = realise(rk)
        model = base.copy()
        try:
            src_model = model[rr, 0:k]
            if np.shape(src_model) == np.shape(target):
                model[mkey] = src_model
                val = d2[rr, 0:k]
            else:
                how = 'array'
        except Exception:
            how = 'array'
        if how == 'array':
            model = base.copy()
            model[mkey] = val
    before_meta = meta_of(d2)
    key_before = repr(key)
    r = call(d2.__setitem__, key, val)
    other = ck[0] in OTHER_COLS or rk[0] == 'none'
    desc = 'assignment through (%r, %r) on shape %r' % (rk, ck, base.shape)
    obs.claim('key_intact', repr(key) == key_before, lambda: '%s: assignment rewrote the key: %s -> %r' % (desc, key_before, key))
    if exp_err is not None:
        if other and not raised(r):
            obs.exclude('assign_other_form_accepted')
            return
        obs.claim('setitem', raised(r), lambda: '%s: plain assignment raises %s but the sample accepted it' % (desc, exp_err))
        obs.claim('setitem', np.array_equal(np.asarray(d2), base), lambda: '%s: refused assignment still changed cells' % desc)
        return
    if raised(r):
        if other:
            return
        obs.fail('setitem', '%s: refused with %r although plain assignment works' % (desc, r))
        return
    obs.claim('setitem', np.array_equal(np.asarray(d2), model),
              lambda: '%s: cells after assignment %r, plain assignment gives %r' % (desc, np.asarray(d2).tolist(), model.tolist()))
    obs.claim('setitem', meta_of(d2) == before_meta, lambda: '%s: assignment changed metadata' % desc)
