"""C17 -- acquisition metadata reflects the file's keywords and never blocks loading."""
import datetime

import numpy as np
from hypothesis import strategies as st

from pbt.samples import call, raised, build

ID = 'C17'
LEVEL = 'exploration'
RULE = ('Hypothesis draws a base file (2..4 parameters, 1..6 events with non-decreasing time values, version '
        '2.0/3.0/3.1, $DATATYPE I or F) and, independently for each optional keyword in {$TIMESTEP, TIMETICKS, '
        '$BTIM, $ETIM, $DATE, $PnV, $PnG, $PnS, CREATOR, BD$WORDn, CytekPnnG}: absent / well-formed in every '
        'accepted format / ill-formed (non-numeric, wrong field count, out-of-range field, blank); a time '
        'channel absent / present in any letter case / twice; $PnE incl. a0,0.  Non-trivial = at least one '
        'ill-formed keyword, or a vendor fallback in effect, or a time channel without time step.')
ASSUMPTIONS = ['independent derivation of every attribute from the keywords in pbt/props/c17.py',
               'an unparseable standard keyword ($PnV, $PnG, $TIMESTEP) yields an absent attribute even when a vendor '
               'or legacy keyword is present ("missing or unparseable yields an absent attribute")',
               'well-formed number = plain decimal; blank = a single space (TEXT cannot hold an empty value); '
               'yy-mmm-dd dates use yy>31 (otherwise ambiguous with dd-mmm-yy)']
BUDGET = {
    'quick': dict(examples=4000, time_s=300, fuzz=dict(workers=4, runs=800, max_s=60)),
    'thorough': dict(examples=200000, time_s=2400, fuzz=dict(workers=8, runs=6000, max_s=300)),
}

MON = ['Jan', 'Feb', 'Mar', 'Apr', 'May', 'Jun', 'Jul', 'Aug', 'Sep', 'Oct', 'Nov', 'Dec']
BAD_NUM = ['abc', ' ', '12V', '1,5', '--3', '0x10', 'one']
BAD_TIME = ['25:00:00', '12:61:00', '12:00', 'abc', '12:00:00:61', '12:00:00:60', '12:00:00:ab', '12:00:00.xx',
            '1:2:3:4:5', ' ', '12:00:61', '12-00-00', '12:00:00:', ':::', '12:00:00:-5', 'aa:bb:cc',
            '12.5:30:40', '12:30.5:40', '1.5:2:3', '12:00:00:inf', '12:00:00:1e999', '12:00:00:nan', '12:00:00:-Infinity', '12:00:00.inf', '12:00:inf', 'nan:00:00']
BAD_DATE = ['32-JAN-2020', '01-XXX-2020', '2020/01/01', 'abc', ' ', '01-JAN', '30-FEB-2021', '01-13-2020',
            '2020-01-01', 'JAN-01-2020']


@st.composite
def _time(draw):
    kind = draw(st.sampled_from(['absent', 'hms', 'tt', 'cc', 'bad']))
    if kind == 'absent':
        return None
    if kind == 'bad':
        return dict(s=draw(st.sampled_from(BAD_TIME)), t=None, kind='bad')
    h, m, s = draw(st.integers(0, 23)), draw(st.integers(0, 59)), draw(st.integers(0, 59))
    if kind == 'hms':
        return dict(s='%02d:%02d:%02d' % (h, m, s), t=[h, m, s, 0], kind=kind)
    if kind == 'tt':
        tt = draw(st.integers(0, 59))
        return dict(s='%02d:%02d:%02d:%02d' % (h, m, s, tt), t=[h, m, s, int(tt * 1e6 / 60)], kind=kind)
    cc = draw(st.integers(0, 99))
    return dict(s='%02d:%02d:%02d.%02d' % (h, m, s, cc), t=[h, m, s, cc * 10000], kind=kind)


@st.composite
def _date(draw):
    kind = draw(st.sampled_from(['absent', 'absent', 'd-b-y', 'd-b-Y', 'y-b-d', 'Y-b-d', 'bad']))
    if kind == 'absent':
        return None
    if kind == 'bad':
        return dict(s=draw(st.sampled_from(BAD_DATE)), d=None, kind='bad')
    # any calendar day, month ends and leap days included
    lo, hi = datetime.date(1970, 1, 1).toordinal(), datetime.date(2059, 12, 31).toordinal()
    day = draw(st.one_of(st.integers(lo, hi).map(datetime.date.fromordinal),
                         st.sampled_from([datetime.date(2016, 2, 29), datetime.date(2000, 2, 29), datetime.date(1996, 2, 29),
                                          datetime.date(2032, 2, 29), datetime.date(2021, 1, 31), datetime.date(1999, 12, 31)])))
    y, mo, d = day.year, day.month, day.day
    mn = draw(st.sampled_from([MON[mo - 1], MON[mo - 1].upper(), MON[mo - 1].lower()]))
    if kind == 'd-b-Y':
        return dict(s='%02d-%s-%04d' % (d, mn, y), d=[y, mo, d], kind=kind)
    if kind == 'Y-b-d':
        return dict(s='%04d-%s-%02d' % (y, mn, d), d=[y, mo, d], kind=kind)
    if kind == 'd-b-y':
        yy = y % 100
        return dict(s='%02d-%s-%02d' % (d, mn, yy), d=[2000 + yy if yy <= 68 else 1900 + yy, mo, d], kind=kind)
    yy = y % 100
    if yy < 32 or (mo == 2 and d == 29 and (2000 + yy if yy <= 68 else 1900 + yy) % 4):
        yy = 96 if (mo == 2 and d == 29) else draw(st.integers(32, 99))      # yy > 31 (see ASSUMPTIONS); keep leap days valid
    return dict(s='%02d-%s-%02d' % (yy, mn, d), d=[2000 + yy if yy <= 68 else 1900 + yy, mo, d], kind=kind)


_NUM_FORMS = [repr, repr, repr, lambda v: '%E' % v, lambda v: '%.3e' % v, lambda v: '+' + repr(v),
              lambda v: ' %r ' % (v,), lambda v: repr(float(v))]


def _spelled(v_f):
    # the ways a writer may spell one number: 450, 450.0, 4.500000E+02, 4.500e+02, +450, ' 450 '
    s_ = v_f[1](v_f[0])
    return dict(s=s_, v=float(s_))


def _num(well):
    return st.one_of(st.tuples(well, st.sampled_from(_NUM_FORMS)).map(_spelled),
                     st.sampled_from(BAD_NUM).map(lambda s: dict(s=s, v=None)))


@st.composite
def _case(draw):
    # mostly few parameters; sometimes more than nine (two-digit parameter numbers in vendor keywords)
    D = draw(st.one_of(st.integers(2, 4), st.integers(2, 4), st.integers(2, 4), st.integers(10, 12)))
    N = draw(st.integers(1, 6))
    base = (['FSC-H', 'SSC-H', 'FL1-H', 'FL2-A'] + ['P%d-A' % i for i in range(5, 13)])[:D]
    tc = draw(st.sampled_from(['none', 'none', 'Time', 'TIME', 'time', 'tImE', 'two']))
    names = list(base)
    if tc == 'two':
        names[0], names[-1] = 'Time', 'TIME'
    elif tc != 'none':
        names[draw(st.integers(0, D - 1))] = tc
    dt = draw(st.sampled_from(['I', 'I', 'F']))
    tvals = sorted(draw(st.lists(st.integers(0, 1000), min_size=N, max_size=N)))
    events = [[(tvals[i] if names[j].lower() == 'time' else (7 * i + j) % 1024) for j in range(D)] for i in range(N)]
    pne = [draw(st.sampled_from(['0,0', '4,1', '4,0', '4.0,0.0', '2.5,0', '0.0,0.0', '3,0.1', '0,1'])) for _ in range(D)]
    volt = [draw(st.one_of(st.none(), _num(st.sampled_from([450, 600.5, 0, 999.25])))) for _ in range(D)]
    gain = [draw(st.one_of(st.none(), _num(st.sampled_from([1, 2.5, 0.5, 16])))) for _ in range(D)]
    labels = [draw(st.sampled_from([None, 'GFP', 'mCherry', 'a label', ' '])) for _ in range(D)]
    creator = draw(st.sampled_from([None, None, 'CellQuest Pro 5.2.1', 'BD CellQuest Pro', 'FlowJoCollectorsEdition 7.5.110.7',
                                    'FACSDiva', 'cellquest pro']))
    bdword = [draw(st.one_of(st.none(), _num(st.sampled_from([300, 455.5, 700])))) for _ in range(D)]
    cytek = [draw(st.one_of(st.none(), _num(st.sampled_from([1, 4, 8.5])))) for _ in range(D)]
    return dict(version=draw(st.sampled_from(['FCS2.0', 'FCS3.0', 'FCS3.1'])), datatype=dt, names=names, events=events,
                ranges=[draw(st.sampled_from([1024, 2048, 4096, 262144] + ([4294967296, 33554432] if dt != 'I' else []))) for _ in range(D)], pne=pne,
                timestep=draw(st.one_of(st.none(), st.none(), _num(st.sampled_from([0.01, 0.1, 1, 0.5, 0.001, 0, 0.0])))),
                timeticks=draw(st.one_of(st.none(), st.none(), _num(st.sampled_from([100, 200, 1000, 50.5, 0])))),
                btim=draw(_time()), etim=draw(_time()), date=draw(_date()), volt=volt, gain=gain, labels=labels,
                creator=creator, bdword=bdword, cytek=cytek)


def strategy(tier):
    return _case()


def _fcs_spec(c):
    D = len(c['names'])
    dt = c['datatype']
    extra = []
    if c['timestep'] is not None:
        extra.append(['$TIMESTEP', c['timestep']['s']])
    if c['timeticks'] is not None:
        extra.append(['TIMETICKS', c['timeticks']['s']])
    for key, kw in (('btim', '$BTIM'), ('etim', '$ETIM'), ('date', '$DATE')):
        if c[key] is not None:
            extra.append([kw, c[key]['s']])
    if c['creator'] is not None:
        extra.append(['CREATOR', c['creator']])
    for i in range(D):
        if c['bdword'][i] is not None:
            extra.append(['BD$WORD%d' % (13 + i), c['bdword'][i]['s']])
        if c['cytek'][i] is not None:
            extra.append(['CytekP%02dG' % (i + 1), c['cytek'][i]['s']])
    ev = c['events']
    if dt == 'F':
        ev = [[float(v) for v in row] for row in ev]
    return dict(version=c['version'], datatype=dt, byteord='4,3,2,1', widths=[32] * D,
                ranges=c['ranges'], names=c['names'], events=ev, pne=c['pne'], extra=extra,
                pnv=[v['s'] if v else None for v in c['volt']], png=[g['s'] if g else None for g in c['gain']],
                pns=c['labels'])


def check(case, obs):
    import FlowCal.io  # noqa
    c = case
    D = len(c['names'])
    d = call(build, _fcs_spec(c))
    ill = [k for k in ('timestep', 'timeticks') if c[k] is not None and c[k]['v'] is None]
    ill += [k for k in ('btim', 'etim') if c[k] is not None and c[k]['t'] is None]
    ill += ['date'] if (c['date'] is not None and c['date']['d'] is None) else []
    ill += ['volt'] if any(v is not None and v['v'] is None for v in c['volt']) else []
    ill += ['gain'] if any(g is not None and g['v'] is None for g in c['gain']) else []
    cq = c['creator'] is not None and 'CellQuest Pro' in c['creator']
    fj = c['creator'] is not None and 'FlowJoCollectorsEdition' in c['creator']
    fallback = (cq and any(c['volt'][i] is None and c['bdword'][i] is not None for i in range(D))) or \
               (fj and any(c['gain'][i] is None and c['cytek'][i] is not None for i in range(D)))
    ntime = sum(1 for n in c['names'] if n.lower() == 'time')
    step_kw = c['timestep'] is not None or c['timeticks'] is not None
    obs.nontrivial = bool(ill) or fallback or (ntime == 1 and not step_kw)
    obs.label(*['ill:' + k for k in ill])
    obs.label('time_channels:%d' % ntime, 'fallback' if fallback else 'no_fallback', c['version'])
    if not obs.claim('loads', not raised(d), lambda: 'loading raised %r' % (d,)):
        return

    # ---- channel-independent attributes
    ts, tk = c['timestep'], c['timeticks']
    if ts is not None and ts['v'] is not None:
        exp_ts = [ts['v']]
    elif ts is not None:                                  # ill-formed standard keyword: an absent attribute
        exp_ts = [None]
    elif tk is not None:
        exp_ts = [tk['v'] / 1000.0 if tk['v'] is not None else None]
    else:
        exp_ts = [None]
    obs.claim('time_step', any((d.time_step is None and e is None) or
                               (e is not None and d.time_step is not None and abs(d.time_step - e) <= 1e-12 * abs(e))
                               for e in exp_ts),
              lambda: 'time_step %r, keywords say %r' % (d.time_step, exp_ts))
    date = datetime.date(*c['date']['d']) if (c['date'] is not None and c['date']['d'] is not None) else None

    def expect_time(x):
        if x is None or x['t'] is None:
            return None
        t = datetime.time(*x['t'])
        return datetime.datetime.combine(date, t) if date is not None else t

    for nm, got, x in (('start', d.acquisition_start_time, c['btim']), ('end', d.acquisition_end_time, c['etim'])):
        e = expect_time(x)
        ok = (got is None) == (e is None)
        if ok and e is not None:
            ok = type(got) is type(e)
            if ok:
                g2 = got if isinstance(got, datetime.datetime) else datetime.datetime.combine(datetime.date(2000, 1, 1), got)
                e2 = e if isinstance(e, datetime.datetime) else datetime.datetime.combine(datetime.date(2000, 1, 1), e)
                ok = abs((g2 - e2).total_seconds()) <= 2e-6
        obs.claim('times', ok, lambda: 'acquisition_%s_time %r, keywords (%r, date %r) say %r' % (
            nm, got, x and x['s'], c['date'] and c['date']['s'], e))
    obs.claim('data_type', d.data_type == c['datatype'], 'data_type')

    # ---- channel-dependent attributes
    obs.claim('names', tuple(d.channels) == tuple(c['names']), lambda: 'channels %r' % (d.channels,))
    obs.claim('labels', list(d.channel_labels()) == list(c['labels']), lambda: 'labels %r vs %r' % (d.channel_labels(), c['labels']))
    obs.claim('range', [[float(v) for v in r] for r in d.range()] == [[0.0, R - 1.0] for R in c['ranges']]      # (as Python floats: exact)
              and list(d.resolution()) == list(c['ranges']), lambda: 'range/resolution %r %r' % (d.range(), d.resolution()))
    exp_at = []
    for s in c['pne']:
        a0, a1 = [float(v) for v in s.split(',')]
        exp_at.append((a0, 1.0 if (a0 != 0 and a1 == 0) else a1))
    obs.claim('amplification_type', [tuple(a) for a in d.amplification_type()] == exp_at,
              lambda: 'amplification types %r, $PnE say %r' % (d.amplification_type(), exp_at))
    for nm, got, std, alt, use_alt in (('voltage', d.detector_voltage(), c['volt'], c['bdword'], cq),
                                       ('gain', d.amplifier_gain(), c['gain'], c['cytek'], fj)):
        for i in range(D):
            if std[i] is not None and std[i]['v'] is not None:
                allowed = [std[i]['v']]
            elif std[i] is not None:                       # ill-formed standard keyword: an absent attribute
                allowed = [None]
            elif use_alt and alt[i] is not None:
                allowed = [alt[i]['v']]
            else:
                allowed = [None]
            obs.claim(nm, got[i] in allowed and (got[i] is None or isinstance(got[i], float)),
                      lambda: '%s of channel %d is %r, keywords say %r (std %r, fallback %r, CREATOR %r)' % (
                          nm, i, got[i], allowed, std[i] and std[i]['s'], alt[i] and alt[i]['s'], c['creator']))
    # accessors agree by name / position
    j = D - 1
    obs.claim('accessors', d.detector_voltage(c['names'][j]) == d.detector_voltage()[j] if ntime < 2 else True, 'accessor by name')

    # ---- duration
    at = call(lambda: d.acquisition_time)
    if ntime > 1:
        obs.claim('duration', raised(at), 'two time channels accepted')
        return
    if not obs.claim('duration', not raised(at), lambda: 'acquisition_time raised %r' % (at,)):
        return
    # asking for the duration is a question, not an edit: the start and end times still answer what they answered
    for nm, x in (('start', c['btim']), ('end', c['etim'])):
        got2 = call(lambda: getattr(d, 'acquisition_%s_time' % nm))
        e2 = expect_time(x)
        same = (not raised(got2)) and ((got2 is None and e2 is None) or (got2 is not None and e2 is not None and type(got2) is type(e2) and got2 == e2))
        obs.claim('times', same, lambda: 'acquisition_%s_time after acquisition_time was read: %r, keywords say %r' % (nm, got2, e2))
    step = d.time_step
    tcol = [i for i, n in enumerate(c['names']) if n.lower() == 'time']
    e_start, e_end = expect_time(c['btim']), expect_time(c['etim'])
    if tcol and step is not None:
        exp = (c['events'][-1][tcol[0]] - c['events'][0][tcol[0]]) * step
    elif e_start is not None and e_end is not None:
        if isinstance(e_start, datetime.time):
            base = datetime.date(2000, 1, 1)
            exp = (datetime.datetime.combine(base, e_end) - datetime.datetime.combine(base, e_start)).total_seconds()
        else:
            exp = (e_end - e_start).total_seconds()
    else:
        exp = None
    obs.claim('duration', (at is None) == (exp is None) and (exp is None or abs(float(at) - exp) <= 1e-5 + (1e-6 if c['datatype'] == 'F' else 1e-9) * abs(exp)),
              lambda: 'acquisition_time %r, expected %r (time channel %r, step %r, $BTIM %r, $ETIM %r, $DATE %r)' % (
                  at, exp, bool(tcol), step, c['btim'] and c['btim']['s'], c['etim'] and c['etim']['s'], c['date'] and c['date']['s']))
