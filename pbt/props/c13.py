"""C13 -- no call changes its inputs, and results share no state with them."""
import inspect
import io as _io
import os

import numpy as np
from hypothesis import strategies as st

from pbt import fcsgen
from pbt.runner import workdir, Obs
from pbt.samples import call, raised, fingerprint, fp_diff, to_fcs_spec, native

ID = 'C13'
LEVEL = 'exploration'
ENGINES = ['hypothesis over a recipe table', 'exhaustive ordered query pairs']
RULE = ('Public callables are enumerated at run time with inspect (functions of io, transform, gate, stats, mef, '
        'plot; public methods and properties of FCSData and FCSFile). A recipe table maps each to argument builders '
        '(integer / float / float-with-negatives sample, plain array, 1-D sample, every scale option, scalar vs '
        'list arguments, caller-owned containers: bins lists, populations lists, parameter dictionaries, xlim '
        'lists, channel lists, mef_values). Hypothesis draws (callable, variant, data seed); every argument is '
        'fingerprinted before and after the call (also when it raises); sample-valued results are tested for '
        'shared memory and for independence under mutation in both directions. Exhaustive part: all ordered pairs '
        'of ~47 read-only queries on one sample (answer of q2 after q1 == answer of q2 on a pristine equal '
        'object). Non-trivial = the call received a caller-owned mutable container, or a sample with a zero lower '
        'limit and a log scale.')
ASSUMPTIONS = ['fingerprints use public accessors only (values, dtype, every metadata accessor; recursive structure '
               'and element identity for lists/dicts/tuples)',
               'handing out the stored range list from range() is not itself flagged',
               'callables without a recipe are listed as uncovered_callables in the evidence (and printed), not '
               'silently skipped',
               'file-like arguments are fingerprinted by content, not by stream position']
BUDGET = {
    'quick': dict(examples=2400, time_s=420, shrink=True, shrink_cap_s=60),
    'thorough': dict(examples=40000, time_s=3000, shrink_cap_s=120, fuzz=dict(workers=8, runs=6000, max_s=300)),
}

SCALES = ['linear', 'log', 'logicle']


# ----------------------------------------------------------------------------------------------
# deep fingerprint of arbitrary arguments
# ----------------------------------------------------------------------------------------------

def deepfp(o, depth=0):
    if hasattr(o, 'channels') and isinstance(o, np.ndarray):
        f = fingerprint(o)
        return ('fcs', tuple(sorted((k, repr(v)) for k, v in f.items())))
    if isinstance(o, np.ndarray):
        return ('nd', o.dtype.str, o.shape, native(o).tobytes())
    if isinstance(o, (list, tuple)):
        return (type(o).__name__, tuple((id(e), deepfp(e, depth + 1)) for e in o))
    if isinstance(o, dict):
        return ('dict', tuple(sorted((repr(k), id(v), deepfp(v, depth + 1)) for k, v in o.items())))
    if isinstance(o, (_io.BytesIO,)):
        return ('bytesio', o.getvalue())
    if hasattr(o, 'read') and hasattr(o, 'name'):
        return ('file', o.name)
    if callable(o):
        return ('callable', id(o))
    return ('val', repr(o))


def fp_changed(a, b, path='arg'):
    """Human-readable location of the first difference between two deep fingerprints."""
    if a == b:
        return None
    if a[0] != b[0]:
        return '%s: kind %s -> %s' % (path, a[0], b[0])
    if a[0] == 'fcs':
        da, db = dict(a[1]), dict(b[1])
        return '%s: sample fields %r changed' % (path, sorted(k for k in da if da[k] != db.get(k)))
    if a[0] in ('list', 'tuple'):
        if len(a[1]) != len(b[1]):
            return '%s: length %d -> %d' % (path, len(a[1]), len(b[1]))
        for i, (x, y) in enumerate(zip(a[1], b[1])):
            if x[0] != y[0]:
                return '%s[%d]: element replaced by another object' % (path, i)
            r = fp_changed(x[1], y[1], '%s[%d]' % (path, i))
            if r:
                return r
    if a[0] == 'dict':
        ka, kb = [x[0] for x in a[1]], [x[0] for x in b[1]]
        if ka != kb:
            return '%s: keys %r -> %r' % (path, ka, kb)
        for x, y in zip(a[1], b[1]):
            if x[1] != y[1]:
                return '%s[%s]: value replaced by another object' % (path, x[0])
            r = fp_changed(x[2], y[2], '%s[%s]' % (path, x[0]))
            if r:
                return r
    return '%s: contents changed' % path


# ----------------------------------------------------------------------------------------------
# context: the objects recipes draw their arguments from
# ----------------------------------------------------------------------------------------------

NAMES = ['FSC-H', 'SSC-H', 'FL1-H', 'FL2-H', 'FL3-H', 'Time']


class Ctx(object):
    def __init__(self, seed, n=70):
        self.seed = seed
        self.n = n
        self._cache = {}
        self.owned = False      # set by recipes that pass a caller-owned mutable container
        self.logzero = False    # sample with zero lower limit and a log scale

    def spec(self, kind):
        n = self.n
        if kind == 'float':
            return dict(version='FCS3.0', datatype='F', byteord='1,2,3,4', widths=[32] * 6, ranges=[1024] * 6, names=NAMES,
                        pne=['0,0'] * 6, n=n, data_seed=self.seed, negatives=True,
                        extra=[['$TIMESTEP', '0.5']])
        if kind == 'mixed':
            return dict(version='FCS3.0', datatype='I', byteord='1,2,3,4', widths=[8, 16, 32, 24, 16, 16],
                        ranges=[256, 1024, 65536, 4096, 1024, 1024], names=NAMES, pne=['0,0'] * 6, n=n, data_seed=self.seed)
        return dict(version='FCS2.0', datatype='I', byteord='4,3,2,1', widths=[16] * 6, ranges=[1024] * 6, names=NAMES,
                    pne=['0,0', '0,0', '4,1', '4,0', '2,0.1', '0,0'], png=[None, '2', None, None, None, None],
                    pnv=['300', '350', '600', '650', None, None], pns=[None, None, 'GFP', 'RFP', None, None],
                    n=n, data_seed=self.seed, col_kind=['uniform'] * 5 + ['ramp'],
                    specials=[[0, 0, 0], [1, 0, 1023], [2, 2, 0], [3, 2, 1023], [4, 3, 0], [5, 1, 1023]],
                    extra=[['$BTIM', '10:00:00'], ['$ETIM', '10:02:30'], ['$DATE', '01-FEB-2020'], ['TIMETICKS', '100']])

    def path(self, kind='int'):
        key = 'path_' + kind
        if key not in self._cache:
            p = os.path.join(workdir(), 'c13_%s.fcs' % kind)
            buf, info = fcsgen.write(p, to_fcs_spec(self.spec(kind)))
            self._cache[key] = (p, buf, info)
        return self._cache[key]

    def sample(self, kind='int'):
        """A *fresh* sample object on every call (so that histories never leak between sub-checks)."""
        import FlowCal.io
        import FlowCal.transform
        if kind == 'rfi':
            return FlowCal.transform.to_rfi(self.sample('int'), ['FL1-H', 'FL2-H', 'FL3-H'])
        if kind == 'rfi_all':
            return FlowCal.transform.to_rfi(self.sample('int'))
        if kind == '1d':
            return self.sample('int')[:, 'FL1-H']
        if kind == 'beads':
            return self.beads()
        return FlowCal.io.FCSData(self.path(kind)[0])

    def array(self):
        return np.asarray(self.sample('rfi')).copy()

    def beads(self, pops=3):
        import FlowCal.io
        rng = np.random.Generator(np.random.PCG64(self.seed))
        n = 80 * pops
        lab = np.arange(n) % pops
        fl = np.round(np.clip(np.array([40, 150, 500, 12][:pops])[lab] * np.exp(rng.normal(0, 0.04, n)), 1, 1000))
        fl2 = np.round(np.clip(np.array([35, 130, 450, 10][:pops])[lab] * np.exp(rng.normal(0, 0.04, n)), 1, 1000))
        ev = [[int(rng.integers(300, 600)), int(rng.integers(300, 600)), int(fl[i]), int(fl2[i]), 5, i] for i in range(n)]
        spec = dict(self.spec('int'))
        spec.pop('n'), spec.pop('specials'), spec.pop('col_kind')
        spec['events'] = ev
        spec['pne'] = ['0,0'] * 6
        p = os.path.join(workdir(), 'c13_beads.fcs')
        fcsgen.write(p, spec)
        return FlowCal.io.FCSData(p)


# ----------------------------------------------------------------------------------------------
# recipes: name -> list of functions ctx -> (callable, args, kwargs)
# ----------------------------------------------------------------------------------------------

def _own(ctx, x):
    ctx.owned = True
    return x


def build_recipes():
    import FlowCal
    import FlowCal.io as fio
    import FlowCal.transform as tr
    import FlowCal.gate as gate
    import FlowCal.stats as stats
    import FlowCal.mef as mef
    import FlowCal.plot as fplot
    R = {}

    def add(name, fn):
        R.setdefault(name, []).append(fn)

    # ---- io functions
    add('io.read_fcs_header_segment', lambda c: (fio.read_fcs_header_segment, [_io.BytesIO(c.path()[1])], {}))
    add('io.read_fcs_text_segment', lambda c: (fio.read_fcs_text_segment,
                                               [_io.BytesIO(c.path()[1]), c.path()[2]['text_begin'], c.path()[2]['text_end']], {}))
    add('io.read_fcs_data_segment', lambda c: (fio.read_fcs_data_segment, [open(c.path()[0], 'rb'), c.path()[2]['data_begin'],
                                                                           c.path()[2]['data_end'], 'I', c.n,
                                                                           _own(c, [16] * 6), True], dict(param_ranges=[1024.0] * 6)))
    add('io.read_fcs_data_segment', lambda c: (fio.read_fcs_data_segment, [open(c.path('mixed')[0], 'rb'), c.path('mixed')[2]['data_begin'],
                                                                           c.path('mixed')[2]['data_end'], 'I', c.n,
                                                                           _own(c, np.array([8, 16, 32, 24, 16, 16], dtype=np.int64)), False],
                                               dict(param_ranges=_own(c, np.array([256.0, 1024.0, 65536.0, 4096.0, 1024.0, 1024.0])))))
    add('io.read_fcs_data_segment', lambda c: (fio.read_fcs_data_segment, [open(c.path()[0], 'rb'), c.path()[2]['data_begin'],
                                                                           c.path()[2]['data_end'], 'I', c.n,
                                                                           _own(c, np.array([16] * 6, dtype=np.int64)), True],
                                               dict(param_ranges=_own(c, np.array([1024.0] * 6)))))
    add('io.FCSFile', lambda c: (fio.FCSFile, [c.path()[0]], {}))
    add('io.FCSData', lambda c: (fio.FCSData, [c.path()[0]], {}))
    for prop in ('infile', 'header', 'text', 'data', 'analysis'):
        add('io.FCSFile.' + prop, lambda c, p=prop: (lambda f: getattr(f, p), [fio.FCSFile(c.path()[0])], {}))
    for prop in ('infile', 'text', 'analysis', 'data_type', 'time_step', 'acquisition_start_time', 'acquisition_end_time',
                 'acquisition_time', 'channels'):
        for kind in ('int', 'float', 'rfi'):
            add('io.FCSData.' + prop, lambda c, p=prop, k=kind: (lambda d: getattr(d, p), [c.sample(k)], {}))
    for m in ('amplification_type', 'detector_voltage', 'amplifier_gain', 'channel_labels', 'range', 'resolution'):
        for chv in ('none', 'name', 'list', 'pos'):
            for kind in ('int', 'rfi'):
                def rec(c, m=m, chv=chv, kind=kind):
                    d = c.sample(kind)
                    ch = {'none': None, 'name': 'FL1-H', 'pos': 2}.get(chv, None)
                    if chv == 'list':
                        ch = _own(c, ['FL2-H', 0, 'FSC-H'])
                    return (getattr(fio.FCSData, m), [d, ch], {})
                add('io.FCSData.' + m, rec)
    for scale in SCALES + ['mixed']:
        for chv in ('name', 'list', 'none'):
            for kind in ('int', 'rfi', 'float'):
                def rec(c, scale=scale, chv=chv, kind=kind):
                    d = c.sample(kind)
                    if scale in ('log', 'mixed') and kind in ('int', 'float'):
                        c.logzero = True
                    if chv == 'name':
                        return (fio.FCSData.hist_bins, [d, 'FL1-H', None, 'log' if scale == 'mixed' else scale], {})
                    chs = _own(c, ['FL1-H', 'FSC-H', 3]) if chv == 'list' else None
                    k = 3 if chv == 'list' else 6
                    nb = _own(c, [16, None, 8, 4, 4, 4][:k])
                    sc = _own(c, (['log', 'linear', 'logicle'] * 2)[:k]) if scale == 'mixed' else scale
                    return (fio.FCSData.hist_bins, [d, chs, nb, sc], {})
                add('io.FCSData.hist_bins', rec)

    # ---- transform
    for kind in ('int', 'rfi', 'array'):
        add('transform.transform', lambda c, k=kind: (tr.transform, [c.array() if k == 'array' else c.sample(k),
                                                                     _own(c, [2, 3] if k == 'array' else ['FL1-H', 'FL2-H']), np.sqrt], {}))
    add('transform.transform', lambda c: (tr.transform, [c.sample('int'), None, np.log1p], dict(def_channels=_own(c, ['FL1-H']))))
    for kind in ('int', 'float'):
        add('transform.to_rfi', lambda c, k=kind: (tr.to_rfi, [c.sample(k)], {}))
        add('transform.to_rfi', lambda c, k=kind: (tr.to_rfi, [c.sample(k), _own(c, ['FL1-H', 'FSC-H'])],
                                                   dict(amplification_type=_own(c, [(4.0, 1.0), (0.0, 0.0)]),
                                                        amplifier_gain=_own(c, [None, 2.0]), resolution=_own(c, [1024, None]))))
    # lists with entries left to the file (None): they are the caller's and stay as given
    for kind in ('int', 'float'):
        add('transform.to_rfi', lambda c, k=kind: (tr.to_rfi, [c.sample(k), _own(c, ['FL1-H', 'FSC-H', 'FL2-H'])],
                                                   dict(amplification_type=_own(c, [None, (0.0, 0.0), None]),
                                                        amplifier_gain=_own(c, [None, None, None]), resolution=_own(c, [None, None, 512]))))
    add('transform.to_rfi', lambda c: (tr.to_rfi, [c.array(), _own(c, [2])], dict(amplification_type=_own(c, [(2.0, 1.0)]),
                                                                                 resolution=_own(c, [1024]))))
    curve = lambda x: 3.0 * np.sign(x) * np.abs(x) ** 1.1
    for kind in ('rfi', 'int', 'array'):
        add('transform.to_mef', lambda c, k=kind: (tr.to_mef, [c.array() if k == 'array' else c.sample(k),
                                                               _own(c, [2] if k == 'array' else ['FL1-H']),
                                                               _own(c, [curve, curve]),
                                                               _own(c, [3, 2] if k == 'array' else ['FL2-H', 'FL1-H'])], {}))

    # ---- gates
    for kind in ('int', 'rfi', 'array'):
        add('gate.start_end', lambda c, k=kind: (gate.start_end, [c.array() if k == 'array' else c.sample(k)],
                                                 dict(num_start=5, num_end=3, full_output=True)))
        # nothing to discard (negative numbers are documented as "ignored"): still a result of its own
        add('gate.start_end', lambda c, k=kind: (gate.start_end, [c.array() if k == 'array' else c.sample(k)],
                                                 dict(num_start=0, num_end=0, full_output=True)))
        add('gate.start_end', lambda c, k=kind: (gate.start_end, [c.array() if k == 'array' else c.sample(k)],
                                                 dict(num_start=-2, num_end=0)))
        add('gate.high_low', lambda c, k=kind: (gate.high_low, [c.array() if k == 'array' else c.sample(k)],
                                                dict(channels=_own(c, [0, 2] if k == 'array' else ['FSC-H', 'FL1-H']), full_output=True)))
        add('gate.high_low', lambda c, k=kind: (gate.high_low, [c.array() if k == 'array' else c.sample(k)], dict(high=900, low=2)))
        add('gate.ellipse', lambda c, k=kind: (gate.ellipse, [c.array() if k == 'array' else c.sample(k),
                                                             _own(c, [0, 1] if k == 'array' else ['FSC-H', 'SSC-H'])],
                                               dict(center=_own(c, [2.5, 2.5]), a=0.6, b=0.4, theta=0.3, log=True, full_output=True)))
    for kind in ('int', 'rfi_all', 'float'):
        for xs in SCALES:
            for bv in ('int', 'pair', 'none_pair', 'edges', 'default'):
                def rec(c, kind=kind, xs=xs, bv=bv):
                    d = c.sample(kind)
                    if xs == 'log' and kind in ('int', 'float'):
                        c.logzero = True
                    bins = dict(int=8, pair=[8, 6], none_pair=[None, 16], default=None,
                                edges=[np.linspace(0, 1100, 9), np.linspace(0, 1100, 7)])[bv]
                    if isinstance(bins, list):
                        _own(c, bins)
                    kw = dict(channels=_own(c, ['FSC-H', 'SSC-H']), gate_fraction=0.5, xscale=xs, yscale='logicle',
                              sigma=1.0, full_output=True)
                    if bv != 'default':
                        kw['bins'] = bins
                    else:
                        kw['bins'] = 32
                    return (gate.density2d, [d], kw)
                add('gate.density2d', rec)
    add('gate.density2d', lambda c: (gate.density2d, [c.array()], dict(channels=_own(c, [0, 1]), bins=_own(c, [6, 5]),
                                                                      gate_fraction=0.3, sigma=0.5)))

    # ---- stats
    for s in ('mean', 'gmean', 'median', 'mode', 'std', 'cv', 'gstd', 'gcv', 'iqr', 'rcv'):
        for kind in ('int', 'rfi', 'array', '1d'):
            for chv in ('none', 'name', 'list'):
                def rec(c, s=s, kind=kind, chv=chv):
                    d = c.array() if kind == 'array' else c.sample(kind)
                    if kind == '1d' or chv == 'none':
                        return (getattr(stats, s), [d], {})
                    if chv == 'name':
                        return (getattr(stats, s), [d, 2 if kind == 'array' else 'FL1-H'], {})
                    return (getattr(stats, s), [d, _own(c, [3, 2] if kind == 'array' else ['FL2-H', 'FL1-H'])], {})
                add('stats.' + s, rec)

    # ---- mef
    for scale in SCALES:
        add('mef.clustering_gmm', lambda c, sc=scale: (mef.clustering_gmm, [c.beads()[:, ['FL1-H', 'FL2-H']], 3], dict(scale=sc)))
        add('mef.clustering_gmm', lambda c, sc=scale: (mef.clustering_gmm, [np.asarray(c.beads()[:, ['FL1-H']], dtype=float), 3], dict(scale=sc)))

        def rec_cl0(c, sc=scale, as_sample=False):
            # double-precision events with some non-positive ones (what a log scale has to saturate -- in a copy)
            if as_sample:
                d_ = tr.to_rfi(c.beads()[:, ['FL1-H', 'FL2-H']])
                d_[::50, 0] = 0.0
                d_[1::70, 1] = -3.0
                return (mef.clustering_gmm, [d_, 3], dict(scale=sc))
            a_ = np.asarray(c.beads()[:, ['FL1-H']], dtype=np.float64).copy()
            a_[::50] = 0.0
            a_[1::70] = -3.0
            return (mef.clustering_gmm, [_own(c, a_), 3], dict(scale=sc))
        add('mef.clustering_gmm', rec_cl0)
        add('mef.clustering_gmm', lambda c, sc=scale: rec_cl0(c, sc, True))

        def rec_sel(c, sc=scale, arr=False):
            b = c.beads()
            pops = [b[np.arange(b.shape[0]) % 3 == i][:, 'FL1-H'] for i in range(3)]
            if sc == 'log':
                c.logzero = True
            if arr:
                pops = [np.asarray(p, dtype=float) for p in pops]
                return (mef.selection_std, [_own(c, pops)], dict(scale=sc, low=1.0, high=1000.0))
            return (mef.selection_std, [_own(c, pops)], dict(scale=sc))
        add('mef.selection_std', rec_sel)
        add('mef.selection_std', lambda c, sc=scale: rec_sel(c, sc, True))
    add('mef.fit_beads_autofluorescence', lambda c: (mef.fit_beads_autofluorescence,
                                                     [np.array([10., 30., 100., 300., 900.]), np.array([0., 646., 1704., 4827., 15991.])], {}))
    add('mef.fit_beads_autofluorescence', lambda c: (mef.fit_beads_autofluorescence,
                                                     [_own(c, [10., 30., 100., 300., 900.]), _own(c, [100., 646., 1704., 4827., 15991.])], {}))

    def rec_psc(c):
        o = mef.fit_beads_autofluorescence(np.array([10., 30., 100., 300.]), np.array([100., 646., 1704., 4827.]))
        return (mef.plot_standard_curve, [np.array([10., 30., 100., 300.]), np.array([100., 646., 1704., 4827.]), o[1], o[0]],
                dict(xscale='log', yscale='log', xlim=_own(c, [1.0, 1000.0])))
    add('mef.plot_standard_curve', rec_psc)

    def rec_psc0(c, which):
        # limits that start at or below zero on a log axis (replaced for drawing only); lists, arrays, and the list
        # a sample hands out as a channel's range
        o = mef.fit_beads_autofluorescence(np.array([10., 30., 100., 300.]), np.array([100., 646., 1704., 4827.]))
        d = c.sample('int')
        lim = dict(list=_own(c, [0.0, 1000.0]), array=_own(c, np.array([-5.0, 1000.0])), range=d.range('FL1-H'))[which]
        return (mef.plot_standard_curve, [np.array([10., 30., 100., 300.]), np.array([100., 646., 1704., 4827.]), o[1], o[0]],
                dict(xscale='log', yscale='log', xlim=lim, ylim=_own(c, [0.0, 1e5])))
    for which in ('list', 'array', 'range'):
        add('mef.plot_standard_curve', lambda c, w=which: rec_psc0(c, w))
    for variant in ('real', 'stub', 'plot', 'ndarray', 'ndarray_discard'):
        def rec_gt(c, variant=variant):
            b = c.beads(4 if variant == 'ndarray_discard' else 3)
            mv = _own(c, [[100, 1000, 10000], [80, 800, 8000]])
            if variant == 'ndarray':
                mv = _own(c, np.array([[100., 1000., 10000.], [80., 800., 8000.]]))
            if variant == 'ndarray_discard':
                # four populations, the dimmest of which a (caller-supplied) selection step leaves out of the fit
                mv = _own(c, np.array([[10., 100., 1000., 10000.], [8., 80., 800., 8000.]]))
            kw = dict(clustering_channels=_own(c, ['FL1-H', 'FL2-H']), clustering_params=_own(c, {}),
                      statistic_params=_own(c, {}), selection_params=_own(c, {}), fitting_params=_own(c, {}), full_output=True)
            if variant == 'stub':
                kw['clustering_fxn'] = lambda data, n, **k: np.arange(data.shape[0]) % n
            if variant == 'plot':
                kw.update(plot=True, plot_dir=None)
            if variant == 'ndarray_discard':
                kw['selection_fxn'] = lambda populations, **k: np.array([False] + [True] * (len(populations) - 1))
            return (mef.get_transform_fxn, [b, mv, _own(c, ['FL1-H', 'FL2-H'])], kw)
        add('mef.get_transform_fxn', rec_gt)

    # ---- plot
    for scale in SCALES:
        for kind in ('int', 'rfi', 'float'):
            def lz(c, scale=scale, kind=kind):
                if scale == 'log' and kind in ('int', 'float'):
                    c.logzero = True
            add('plot.hist1d', lambda c, sc=scale, k=kind: (lz(c, sc, k), (fplot.hist1d, [_own(c, [c.sample(k), c.sample(k)])],
                                                                             dict(channel='FL1-H', xscale=sc, bins=16, xlim=_own(c, [1.0, 900.0]))))[1])
            add('plot.hist1d', lambda c, sc=scale, k=kind: (lz(c, sc, k), (fplot.hist1d, [c.sample(k)],
                                                                             dict(channel='FSC-H', xscale=sc, bins=None, facecolor=_own(c, ['r']))))[1])
            def rec_hw(c, sc=scale, k=kind, normed=False):
                # extra keyword arguments travel on to matplotlib: a caller-owned weights array among them (with
                # normed_height the combination may be refused -- either way the array stays what it was)
                lz(c, sc, k)
                d_ = c.sample(k)
                return (fplot.hist1d, [d_], dict(channel='FL1-H', xscale=sc, bins=16, normed_height=normed,
                                                 weights=_own(c, np.full(d_.shape[0], 2.0))))
            add('plot.hist1d', rec_hw)
            add('plot.hist1d', lambda c, sc=scale, k=kind: (lz(c, sc, k), (fplot.hist1d, [_own(c, [c.sample(k), c.sample(k), c.sample(k)])],
                                                                             dict(channel='FL1-H', xscale=sc, bins=16, legend=True,
                                                                                  legend_labels=_own(c, ['control', 'induced']))))[1])
            add('plot.hist1d', lambda c, sc=scale, k=kind: rec_hw(c, sc, k, True))
            add('plot.density2d', lambda c, sc=scale, k=kind: (lz(c, sc, k), (fplot.density2d, [c.sample(k)],
                                                                                dict(channels=_own(c, ['FSC-H', 'SSC-H']), bins=_own(c, [8, None]),
                                                                                     xscale=sc, yscale='logicle', mode='scatter', sigma=1.0)))[1])
            add('plot.density2d', lambda c, sc=scale, k=kind: (lz(c, sc, k), (fplot.density2d, [c.sample(k)],
                                                                                dict(channels=_own(c, ['FSC-H', 'FL1-H']), bins=12,
                                                                                     xscale='linear', yscale=sc, mode='mesh', smooth=False,
                                                                                     xlim=_own(c, [0, 1000]))))[1])
            add('plot.scatter2d', lambda c, sc=scale, k=kind: (lz(c, sc, k), (fplot.scatter2d, [_own(c, [c.sample(k)])],
                                                                                dict(channels=_own(c, ['FSC-H', 'FL1-H']), xscale=sc, yscale=sc)))[1])
            add('plot.scatter3d', lambda c, sc=scale, k=kind: (lz(c, sc, k), (fplot.scatter3d, [_own(c, [c.sample(k)])],
                                                                                dict(channels=_own(c, ['FSC-H', 'SSC-H', 'FL1-H']), xscale=sc,
                                                                                     yscale=sc, zscale='logicle')))[1])
            add('plot.scatter3d_and_projections', lambda c, sc=scale, k=kind: (lz(c, sc, k), (
                fplot.scatter3d_and_projections, [_own(c, [c.sample(k)])],
                dict(channels=_own(c, ['FSC-H', 'SSC-H', 'FL1-H']), xscale='logicle', yscale=sc, zscale=sc)))[1])

            def rec_dh(c, sc=scale, k=kind):
                lz(c, sc, k)
                import FlowCal.gate
                d = c.sample(k)
                g = FlowCal.gate.density2d(c.sample(k), channels=['FSC-H', 'SSC-H'], bins=16, gate_fraction=0.5, sigma=1.0,
                                           full_output=True)
                return (fplot.density_and_hist, [d], dict(gated_data=g.gated_data, gate_contour=g.contour,
                                                          density_channels=_own(c, ['FSC-H', 'SSC-H']),
                                                          density_params=_own(c, dict(mode='scatter', xscale=sc, yscale='logicle', sigma=1.0,
                                                                                      bins=_own(c, [16, 16]))),
                                                          hist_channels=_own(c, ['FL1-H', 'FL2-H']),
                                                          hist_params=_own(c, [dict(xscale=sc, bins=16, facecolor='c'), dict(xscale='linear', bins=16)])))
            add('plot.density_and_hist', rec_dh)
        for kind in ('rfi', 'float'):
            add('plot.violin', lambda c, sc=scale, k=kind: (fplot.violin, [_own(c, [c.sample(k), c.sample(k)])],
                                                            dict(channel='FL1-H', positions=_own(c, [1.0, 10.0]), yscale=sc,
                                                                 xscale='log' if sc == 'log' else 'linear',
                                                                 violin_kwargs=_own(c, dict(facecolor='gray')),
                                                                 draw_summary_stat_kwargs=_own(c, dict(color='k')), num_bins=20)))
            add('plot.violin_dose_response', lambda c, sc=scale, k=kind: (fplot.violin_dose_response, [_own(c, [c.sample(k), c.sample(k), c.sample(k)])],
                                                                          dict(channel='FL1-H', positions=_own(c, [1.0, 10.0, 100.0]),
                                                                               min_data=c.sample(k), max_data=c.sample(k),
                                                                               xscale='log', yscale=sc, num_bins=20,
                                                                               violin_kwargs=_own(c, dict(facecolor='gray')))))
    # position 0 on a logarithmic position axis is drawn apart from the others
    for kind in ('rfi', 'float', 'array'):
        def rec_v0(c, k=kind):
            if k == 'array':
                data = _own(c, [np.array([3.0, 1.0, 2.0, 9.0, 4.0]), np.array([30.0, 10.0, 20.0, 90.0, 5.0])])
                ch = None
            else:
                data = _own(c, [c.sample(k), c.sample(k)])
                ch = 'FL1-H'
            return (fplot.violin, [data], dict(channel=ch, positions=_own(c, [0.0, 10.0]), xscale='log', yscale='log', num_bins=20))
        add('plot.violin', rec_v0)

        def rec_v0l(c, k=kind):
            # per-violin parameters given as lists (one entry per violin)
            fn, args, kw = rec_v0(c, k)
            kw.update(violin_kwargs=_own(c, [dict(facecolor='gray'), dict(facecolor='red')]),
                      draw_summary_stat_kwargs=_own(c, [dict(color='k'), dict(color='b')]),
                      upper_trim_fraction=_own(c, [0.01, 0.05]), lower_trim_fraction=_own(c, [0.02, 0.0]))
            return fn, args, kw
        add('plot.violin', rec_v0l)

        def rec_vd0(c, k=kind):
            if k == 'array':
                data = _own(c, [np.array([3.0, 1.0, 2.0, 9.0, 4.0]), np.array([30.0, 10.0, 20.0, 90.0, 5.0]), np.array([7.0, 6.0, 5.0])])
                ch = None
            else:
                data = _own(c, [c.sample(k), c.sample(k), c.sample(k)])
                ch = 'FL1-H'
            ctl = dict(min_data=_own(c, np.array([1.0, 2.0, 3.0])), max_data=_own(c, np.array([80.0, 90.0, 70.0]))) if k == 'array' else \
                dict(min_data=c.sample(k), max_data=c.sample(k))
            return (fplot.violin_dose_response, [data], dict(channel=ch, positions=_own(c, [0.0, 10.0, 100.0]), xscale='log', yscale='log', num_bins=20, **ctl))
        add('plot.violin_dose_response', rec_vd0)
    # ---- fixed recipes with stable names, used by the committed regression cases (not drawn by the strategy)
    add('__reg__gate.density2d_bins_list', lambda c: (gate.density2d, [c.sample('int')],
                                                       dict(channels=['FSC-H', 'SSC-H'], bins=_own(c, [8, 6]), gate_fraction=0.5, sigma=1.0)))
    add('__reg__plot.density2d_bins_list', lambda c: (fplot.density2d, [c.sample('int')],
                                                       dict(channels=['FSC-H', 'SSC-H'], bins=_own(c, [8, None]), mode='scatter', sigma=1.0)))

    def reg_sel(c, sc):
        b = c.beads()
        return (mef.selection_std, [_own(c, [b[np.arange(b.shape[0]) % 3 == i][:, 'FL1-H'] for i in range(3)])], dict(scale=sc))
    add('__reg__mef.selection_std_linear', lambda c: reg_sel(c, 'linear'))
    add('__reg__mef.selection_std_log', lambda c: reg_sel(c, 'log'))
    add('__reg__hist_bins_log', lambda c: (fio.FCSData.hist_bins, [c.sample('int'), 'FSC-H', 16, 'log'], {}))
    add('__reg__plot.hist1d_log', lambda c: (fplot.hist1d, [c.sample('int')], dict(channel='FSC-H', xscale='log', bins=8)))
    return R


_RECIPES = None


def recipes():
    global _RECIPES
    if _RECIPES is None:
        _RECIPES = build_recipes()
    return _RECIPES


def enumerate_callables():
    """Names of every public callable the property quantifies over, found by inspection."""
    import FlowCal
    names = []
    for short in ('io', 'transform', 'gate', 'stats', 'mef', 'plot'):
        mod = getattr(FlowCal, short)
        for n, f in inspect.getmembers(mod):
            if n.startswith('_'):
                continue
            if inspect.isfunction(f) and f.__module__ == mod.__name__:
                names.append('%s.%s' % (short, n))
            elif inspect.isclass(f) and f.__module__ == mod.__name__ and short == 'io' and n in ('FCSData', 'FCSFile'):
                names.append('io.' + n)
                for an, a in f.__dict__.items():
                    if an.startswith('_'):
                        continue
                    if inspect.isfunction(a) or isinstance(a, property):
                        names.append('io.%s.%s' % (n, an))
    return sorted(set(names))


# ----------------------------------------------------------------------------------------------
# strategy / check
# ----------------------------------------------------------------------------------------------

def strategy(tier):
    rec = recipes()
    names = sorted(n for n in rec if not n.startswith('__reg__'))
    # plots are expensive: draw them less often
    cheap = [n for n in names if not n.startswith('plot.') and n != 'mef.get_transform_fxn']
    costly = [n for n in names if n not in cheap]
    pick = st.one_of(st.sampled_from(cheap), st.sampled_from(cheap), st.sampled_from(cheap), st.sampled_from(costly))
    return st.builds(lambda n, v, s: dict(callable=n, variant=v, seed=s), pick, st.integers(0, 10 ** 6), st.integers(0, 2 ** 16))


def _samples_in(x):
    out = []
    if hasattr(x, 'channels') and isinstance(x, np.ndarray):
        out.append(x)
    elif isinstance(x, (list, tuple)) and not (hasattr(x, '_fields') and False):
        for e in x:
            out += _samples_in(e)
    return out


def check(case, obs):
    import matplotlib
    matplotlib.use('Agg')
    import matplotlib.pyplot as plt
    rec = recipes()
    name = case['callable']
    if name == '__cross__':
        for tag, msg, c in run_job(('cross', 0))['failures']:
            obs.fail(tag, msg)
        obs.claims['order_free'] += 1
        return
    if name in ('__pair__', '__views__'):          # replay of a failure found by the exhaustive part
        Q = queries()
        jobs = [('views', 0)] if name == '__views__' else [('pairs', [n for n, _ in Q].index(case['q1']))]
        for j in jobs:
            for tag, msg, c in run_job(j)['failures']:
                if name == '__views__' or c.get('q2') == case['q2']:
                    obs.fail(tag, msg)
            obs.claims['order_free' if name == '__pair__' else 'no_share'] += 1
        return
    lst = rec[name]
    r = lst[case['variant'] % len(lst)]
    ctx = Ctx(case['seed'])
    np.random.seed(case['seed'] % (2 ** 32))
    fn, args, kwargs = r(ctx)
    obs.label('callable:' + name)
    obs.nontrivial = ctx.owned or ctx.logzero
    if ctx.logzero:
        obs.label('log_scale_zero_lower_limit')
    before = [deepfp(a) for a in args] + [deepfp(kwargs)]
    try:
        out = call(fn, *args, **kwargs)
        after = [deepfp(a) for a in args] + [deepfp(kwargs)]
        for i, (x, y) in enumerate(zip(before, after)):
            loc = fp_changed(x, y, 'argument %d' % i if i < len(args) else 'keyword arguments')
            obs.claim('unchanged', loc is None, lambda: '%s (variant %d): %s%s' % (
                name, case['variant'] % len(lst), loc, ' [call raised %r]' % (out,) if raised(out) else ''))
        if raised(out):
            obs.label('raised')
            return
        # ---- results that are samples share nothing mutable with sample arguments
        ins = [a for a in args if hasattr(a, 'channels') and isinstance(a, np.ndarray)]
        res = _samples_in(out) if not (hasattr(out, 'channels') and isinstance(out, np.ndarray)) else [out]
        if hasattr(out, 'gated_data'):
            res = _samples_in([out.gated_data])
        if ins and res and not name.startswith('io.FCSData.'):
            src = ins[0]
            for rr in res[:2]:
                if rr is src:
                    # a gate or a conversion hands back a sample of its own, even when it had nothing to do
                    obs.claim('no_share', not name.startswith(('gate.', 'transform.')),
                              lambda: '%s: the result is the input object itself' % name)
                    continue
                # a change made to the input before anything was read from the result must not show in the result
                if hasattr(src, 'text') and hasattr(rr, 'text'):
                    src.text['VERIF_EARLY'] = 'x'
                    src.analysis['VERIF_EARLY'] = 'x'
                    leaked = 'VERIF_EARLY' in rr.text or 'VERIF_EARLY' in rr.analysis
                    del src.text['VERIF_EARLY']
                    del src.analysis['VERIF_EARLY']
                    obs.claim('no_share', not leaked, lambda: "%s: a keyword added to the input after the call shows in the result" % name)
                obs.claim('no_share', not np.shares_memory(rr, src) or rr.size == 0,
                          lambda: '%s: result shares event memory with its input' % name)
                _independent(obs, name, src, rr)
    finally:
        for a in args:
            if hasattr(a, 'close') and hasattr(a, 'read'):
                a.close()
        plt.close('all')


def _independent(obs, name, a, b, view=False):
    """Change one side's range, text and a data cell; the other side must not notice (both directions)."""
    for x, y, what in ((a, b, 'input'), (b, a, 'result')):
        ref = fingerprint(x)
        y.text['VERIF'] = 'changed'
        rl = y.range()
        if rl and rl[0] is not None:
            rl[0][0] = -777.0
        if y.size and not view:
            y[(0,) * y.ndim] = 5
        now = fingerprint(x)
        obs.claim('no_share', not fp_diff(ref, now),
                  lambda: '%s: changing the other side changed the %s: %r' % (name, what, fp_diff(ref, now)))


# ----------------------------------------------------------------------------------------------
# exhaustive: ordered pairs of read-only queries; slicing / viewing / copying share rules
# ----------------------------------------------------------------------------------------------

def queries():
    import FlowCal.gate as gate
    import FlowCal.stats as stats
    import FlowCal.transform as tr
    import FlowCal.plot as fplot
    import FlowCal.mef as mef
    Q = []
    Q.append(('range()', lambda d: d.range()))
    Q.append(("range('FL1-H')", lambda d: d.range('FL1-H')))
    Q.append(('range(2)', lambda d: d.range(2)))
    # forms outside the documented ones: refused or answered, but the same way whatever was asked before
    Q.append(('range(np.int64(2))', lambda d: d.range(np.int64(2))))
    Q.append(('d[:5, np.int64(2)]', lambda d: d[:5, np.int64(2)]))
    Q.append(('resolution(2.0)', lambda d: d.resolution(2.0)))
    Q.append(('detector_voltage(True)', lambda d: d.detector_voltage(True)))
    Q.append(("range('fl1-h')", lambda d: d.range('fl1-h')))
    Q.append(('resolution()', lambda d: d.resolution()))
    Q.append(('amplification_type()', lambda d: d.amplification_type()))
    Q.append(('channel_labels()', lambda d: d.channel_labels()))
    Q.append(('acquisition_time', lambda d: d.acquisition_time))
    Q.append(('str', lambda d: str(d)))
    Q.append(('text', lambda d: dict(d.text)))
    for sc in SCALES:
        Q.append(("hist_bins('FSC-H',%s)" % sc, lambda d, sc=sc: d.hist_bins('FSC-H', 16, sc)))
        Q.append(("hist_bins(all,%s)" % sc, lambda d, sc=sc: d.hist_bins(None, None, sc)))
    # the same query with other parameters is another query: its answer must not be the remembered answer of the first
    Q.append(("hist_bins('FSC-H',logicle,T=5000,M=4,W=1)", lambda d: d.hist_bins('FSC-H', 16, 'logicle', T=5000.0, M=4.0, W=1.0)))
    Q.append(("hist_bins('FSC-H',logicle,W=0.5)", lambda d: d.hist_bins('FSC-H', 16, 'logicle', W=0.5)))
    Q.append(("hist_bins('FSC-H',linear,n=8)", lambda d: d.hist_bins('FSC-H', 8, 'linear')))
    Q.append(("hist_bins(['FL1-H','FSC-H'],log)", lambda d: d.hist_bins(['FL1-H', 'FSC-H'], [8, 8], 'log')))
    for s in ('mean', 'gmean', 'median', 'mode', 'std', 'cv', 'gstd', 'gcv', 'iqr', 'rcv'):
        Q.append(('stats.' + s, lambda d, s=s: getattr(stats, s)(d, ['FL1-H', 'FSC-H'])))
    Q.append(('start_end', lambda d: gate.start_end(d, 3, 3)))
    Q.append(('high_low', lambda d: gate.high_low(d, full_output=True).mask))
    Q.append(("high_low('FSC-H')", lambda d: gate.high_low(d, 'FSC-H')))
    Q.append(('ellipse', lambda d: gate.ellipse(d, ['FSC-H', 'SSC-H'], center=[500, 500], a=300, b=200, full_output=True).mask))
    for sc in SCALES:
        Q.append(('gate.density2d(%s)' % sc, lambda d, sc=sc: gate.density2d(d, ['FSC-H', 'SSC-H'], bins=8, gate_fraction=0.5,
                                                                            xscale=sc, yscale=sc, sigma=1.0, full_output=True).mask))
    Q.append(('to_rfi', lambda d: tr.to_rfi(d)))
    Q.append(("to_rfi('FL1-H')", lambda d: tr.to_rfi(d, 'FL1-H')))
    Q.append(('to_mef', lambda d: tr.to_mef(d, 'FL1-H', [lambda x: 2 * x], ['FL1-H'])))
    Q.append(('slice', lambda d: d[2:9, ['FL1-H', 'FSC-H']]))
    Q.append(('copy', lambda d: d.copy()))
    for sc in SCALES:
        Q.append(('plot.hist1d(%s)' % sc, lambda d, sc=sc: fplot.hist1d(d, 'FSC-H', xscale=sc, bins=8)))
        Q.append(('plot.scatter2d(%s)' % sc, lambda d, sc=sc: fplot.scatter2d([d], ['FSC-H', 'FL1-H'], xscale=sc, yscale=sc)))
    Q.append(('selection_std(log)', lambda d: mef.selection_std([d[:30, 'FSC-H'], d[30:, 'FSC-H']], scale='log')))
    return Q


def exhaustive_jobs(tier):
    return [('pairs', i) for i in range(len(queries()))] + [('views', 0), ('cross', 0)]


def _answer(q, d):
    import matplotlib
    matplotlib.use('Agg')
    import matplotlib.pyplot as plt
    try:
        r = call(q, d)
        return ('raised', r.name) if raised(r) else deepfp_value(r)
    finally:
        plt.close('all')


def deepfp_value(o):
    """Fingerprint of an answer by value (no identities)."""
    if hasattr(o, 'channels') and isinstance(o, np.ndarray):
        return ('fcs', tuple(sorted((k, repr(v)) for k, v in fingerprint(o).items())))
    if isinstance(o, np.ndarray):
        return ('nd', o.shape, native(o).tobytes())
    if isinstance(o, (list, tuple)):
        return (type(o).__name__, tuple(deepfp_value(e) for e in o))
    if isinstance(o, dict):
        return ('dict', tuple(sorted((repr(k), deepfp_value(v)) for k, v in o.items())))
    return ('val', repr(o))


def run_job(job):
    kind, i = job
    ctx = Ctx(12345, n=60)
    Q = queries()
    failures = []
    ev = 0
    claims = {}
    if kind == 'pairs':
        n1, q1 = Q[i]
        for n2, q2 in Q:
            pristine = _answer(q2, ctx.sample('int'))
            d = ctx.sample('int')
            _answer(q1, d)
            after = _answer(q2, d)
            ev += 1
            claims['order_free'] = claims.get('order_free', 0) + 1
            if after != pristine and len(failures) < 10:
                failures.append(('order_free', 'answer of %s changes when %s was asked before on the same sample' % (n2, n1),
                                 dict(callable='__pair__', q1=n1, q2=n2, variant=0, seed=12345)))
        return dict(evaluations=ev, nontrivial=ev, failures=failures, labels={'query_pairs': ev}, claims=claims,
                    samples=[dict(pair=[n1, Q[(i + 7) % len(Q)][0]])] if i == 0 else [], complete=True)
    if kind == 'cross':
        # nothing leaks from one object to another: q(B), q(A), q(B') with B' a fresh equal of B gives q(B') == q(B)
        for n1, q in Q:
            for kb, ka in (('rfi', 'int'), ('int', 'float'), ('float', 'rfi')):
                b1 = _answer(q, ctx.sample(kb))
                _answer(q, ctx.sample(ka))
                b2 = _answer(q, ctx.sample(kb))
                ev += 1
                claims['order_free'] = claims.get('order_free', 0) + 1
                if b1 != b2 and len(failures) < 10:
                    failures.append(('order_free', 'answer of %s on a %s sample changes after the same query on a %s sample' % (n1, kb, ka),
                                     dict(callable='__cross__', q1=n1, q2=n1, variant=0, seed=12345)))
        return dict(evaluations=ev, nontrivial=ev, failures=failures, labels={'cross_object': ev}, claims=claims, samples=[], complete=True)
    # views / slices / copies: share at most the event buffer, never metadata
    obs = Obs()
    for nm, mk, view in (('view()', lambda d: d.view(), True), ('slice rows', lambda d: d[3:20], True),
                         ('slice channels', lambda d: d[:, ['FL1-H', 'FSC-H']], True), ('slice int column', lambda d: d[:, 2], True),
                         ('everything [:, :]', lambda d: d[:, :], True), ('everything [:, ...]', lambda d: d[:, ...], True),
                         ('everything [:]', lambda d: d[:], True),
                         ('mask rows', lambda d: d[np.arange(d.shape[0]) % 2 == 0], False), ('copy()', lambda d: d.copy(), False),
                         ('astype(float)', lambda d: d.astype(float), False)):
        for k in ('int', 'rfi', 'float'):
            d = ctx.sample(k)
            r = mk(d)
            if not view:
                obs.claim('no_share', not np.shares_memory(r, d), '%s shares the event buffer' % nm)
            _independent(obs, nm, d, r, view=view)
            ev += 1
    for t, m in obs.failures:
        failures.append((t, m, dict(callable='__views__', variant=0, seed=12345)))
    return dict(evaluations=ev, nontrivial=ev, failures=failures[:10], labels={'view_slice_copy': ev},
                claims=dict(obs.claims), samples=[], complete=True)


def evidence_extra(tier):
    names = enumerate_callables()
    rec = recipes()
    unc = [n for n in names if n not in rec]
    for n in unc:
        print('UNCOVERED callable=%s' % n)
    return dict(callables_enumerated=len(names), callables_with_recipe=len([n for n in names if n in rec]),
                recipes=sum(len(v) for k, v in rec.items() if not k.startswith('__reg__')), uncovered_callables=unc,
                recipe_names_not_found_by_inspection=sorted(n for n in rec if n not in names and not n.startswith('__reg__')))
