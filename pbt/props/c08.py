"""C08 -- every gate returns exactly its documented predicate, applied as a mask."""
import math

import numpy as np
from hypothesis import strategies as st

from pbt.samples import derived_from_used_parent, call, raised, build, fingerprint, fp_diff, NAME_POOL

ID = 'C08'
LEVEL = 'exploration'
RULE = ('Hypothesis draws a container (plain int64/float64 array, or a loaded uint16 / float64 sample) of 0..60 '
        'events x 1..4 channels whose cells come from the gate thresholds themselves, their float neighbours '
        '(nextafter) and random values; then start_end (counts incl. negative, 0, N, N+1), high_low (every '
        'channel form; thresholds explicit, partial or defaulted) or ellipse (centre, semi-axes, rotation incl. '
        '0 and +-pi/2, log flag, exactly representable boundary points).  Non-trivial = some event exactly on '
        'a threshold/boundary, or a defaulted threshold.')
ASSUMPTIONS = ['reference predicates in pbt/props/c08.py evaluated on Python numbers',
               'ellipse membership asserted only for |q-1| > 1e-9 plus exactly representable boundary points',
               'data[mask] (C04) is used for the metadata side of gated == data[mask]; values are compared with '
               'plain ndarray masking']
BUDGET = {
    'quick': dict(examples=6000, time_s=240),
    'thorough': dict(examples=200000, time_s=1500, fuzz=dict(workers=8, runs=6000, max_s=300)),
}


def _nb(x):
    return [x, math.nextafter(x, math.inf), math.nextafter(x, -math.inf)]


@st.composite
def _container(draw, thresholds, min_n=0, max_n=60, positive=False):
    """Explicit cells drawn around `thresholds`."""
    kind = draw(st.sampled_from(['array_f', 'array_i', 'sample_i', 'sample_d']))
    D = draw(st.integers(1, 4))
    N = draw(st.integers(min_n, max_n))
    R = draw(st.sampled_from([256, 1024, 4096]))
    integer = kind in ('array_i', 'sample_i')
    pool = []
    for t in thresholds:
        if integer:
            pool += [int(math.floor(t)), int(math.floor(t)) + 1, int(math.floor(t)) - 1]
        else:
            pool += _nb(float(t))
    if kind.startswith('sample'):
        pool += [0, 1, R - 2, R - 1]
    if integer:
        pool = [min(max(int(v), 0), R - 1) for v in pool]
        cell = st.one_of(st.sampled_from(pool), st.integers(0, R - 1)) if pool else st.integers(0, R - 1)
    else:
        lo = 1e-3 if positive else -50.0
        weird = st.sampled_from([float('nan'), float('inf'), float('-inf')])
        cell = st.one_of(st.sampled_from(pool), st.floats(lo, R * 1.2), st.floats(lo, R * 1.2), weird) if pool \
            else st.one_of(st.floats(lo, R * 1.2), st.floats(lo, R * 1.2), st.floats(lo, R * 1.2), weird)
    cells = [[draw(cell) for _ in range(D)] for _ in range(N)]
    if kind.startswith('sample'):
        # every other channel of a sample has twice the range (see _materialise): move its top values along
        cells = [[(v + R if (j % 2 == 1 and v in (R - 2, R - 1)) else v) for j, v in enumerate(row)] for row in cells]
    names = draw(st.lists(st.sampled_from([n for n in NAME_POOL if n != 'Time']), min_size=D, max_size=D, unique=True))
    return dict(kind=kind, D=D, R=R, cells=cells, names=names, via=draw(st.sampled_from([None, None, None, 'handle'])), big=draw(st.booleans()),
                derived=draw(st.sampled_from([None, None, None, ['slice', 1], ['list', 2], ['perm', 1], ['permname', 2]])))


def _materialise(c):
    kind, D, R = c['kind'], c['D'], c['R']
    cells = c['cells']
    if kind == 'array_f':
        return np.array(cells, dtype=np.float64).reshape((len(cells), D)), None
    if kind == 'array_i':
        return np.array(cells, dtype=np.int64).reshape((len(cells), D)), None
    spec = dict(version='FCS3.0', datatype='I' if kind == 'sample_i' else 'D', byteord='4,3,2,1' if c.get('big') else '1,2,3,4',
                widths=[16 if kind == 'sample_i' else 64] * D, ranges=[R * (1 + j % 2) for j in range(D)],
                names=c['names'], events=cells, pne=['0,0'] * D,          # every other channel has twice the range
                load_via=c.get('via'))
    d = build(spec) if not c.get('derived') else derived_from_used_parent(spec, c['derived'][1], c['derived'][0])
    return d, [[0.0, R * (1 + j % 2) - 1.0] for j in range(D)]


@st.composite
def _start_end(draw):
    c = draw(_container([]))
    N = len(c['cells'])
    cnt = st.one_of(st.integers(-3, N + 2), st.sampled_from([0, N, N + 1, -1, N // 2]))
    return dict(arm='start_end', c=c, num_start=draw(cnt), num_end=draw(cnt))


@st.composite
def _high_low(draw):
    # thresholds: fractional, whole (as float or as int), and whole numbers that the events' own integer type cannot
    # hold (below 0, beyond 16 or 32 bits): a threshold is a number, whatever the events are stored as
    lo = draw(st.one_of(st.none(), st.floats(-5, 300), st.integers(0, 300).map(float), st.sampled_from([-1, -1.0, -300, 0, 0.0])))
    hi = draw(st.one_of(st.none(), st.floats(10, 1100), st.integers(10, 1100).map(float),
                        st.sampled_from([65536, 65536.0, 4294967296, 1e10, 70000])))
    c = draw(_container([t for t in (lo, hi) if t is not None]))
    D = c['D']
    form = draw(st.sampled_from(['none', 'int', 'name', 'list', 'list1']))
    if form == 'list':
        sel = draw(st.lists(st.integers(0, D - 1), min_size=1, max_size=D, unique=True))
    elif form == 'none':
        sel = list(range(D))
    else:
        sel = [draw(st.integers(0, D - 1))]
    if c['kind'] == 'sample_i' and draw(st.sampled_from([True, False, False])):
        # the sample went through the generic transform with a NumPy function first: its limits moved with its events
        c['post'] = draw(st.sampled_from(['sqrt', 'log1p']))
        if draw(st.booleans()):
            lo = hi = None                      # both thresholds defaulted to the (moved) limits
    return dict(arm='high_low', c=c, form=form, sel=sel, spell=[draw(st.sampled_from([True, False, 'neg'])) for _ in sel], low=lo, high=hi)


@st.composite
def _ellipse(draw):
    exact = draw(st.booleans())
    log = draw(st.booleans())
    if exact and log:
        # whole decades: log10 of a power of ten is exact, so points where the ellipse touches its bounding box
        # are exactly on it
        cx, cy = float(draw(st.integers(1, 3))), float(draw(st.integers(1, 3)))
        a, b = float(draw(st.integers(1, 2))), float(draw(st.integers(1, 2)))
        theta = 0.0
    elif exact:
        cx, cy = float(draw(st.integers(1, 500))), float(draw(st.integers(1, 500)))
        a = float(2 ** draw(st.integers(-1, 6)))
        b = float(2 ** draw(st.integers(-1, 6)))
        theta = 0.0
    else:
        if log:
            cx, cy = draw(st.floats(0.5, 2.5)), draw(st.floats(0.5, 2.5))
            a, b = draw(st.floats(0.05, 1.5)), draw(st.floats(0.05, 1.5))
        else:
            cx, cy = draw(st.floats(0, 800)), draw(st.floats(0, 800))
            a, b = draw(st.floats(1, 400)), draw(st.floats(1, 400))
        theta = draw(st.one_of(st.sampled_from([0.0, math.pi / 2, -math.pi / 2, math.pi]), st.floats(-7, 7)))
    c = draw(_container([cx, cy, cx + a, cx - a, cy + b, cy - b] if not log else [], positive=log, max_n=40))
    D = c['D']
    if D < 2:
        c['D'] = D = 2
        c['cells'] = [[row[0], row[0]] for row in c['cells']]
        c['names'] = (c['names'] + ['FL9-X'])[:2]
    sel = draw(st.lists(st.integers(0, D - 1), min_size=2, max_size=2, unique=True))
    if exact:
        # put exactly representable boundary points into the data: centre +- a on x, centre +- b on y
        pts = [(cx + a, cy), (cx - a, cy), (cx, cy + b), (cx, cy - b), (cx, cy)]
        if log:
            pts = [(10.0 ** px, 10.0 ** py) for px, py in pts]
        for i, (px, py) in enumerate(pts):
            if i < len(c['cells']):
                if c['kind'] in ('array_i', 'sample_i'):
                    if px != int(px) or py != int(py) or px < 0 or py < 0 or max(px, py) >= c['R']:
                        continue
                    px, py = int(px), int(py)
                c['cells'][i][sel[0]] = px
                c['cells'][i][sel[1]] = py
    if log and c['kind'] in ('array_i', 'sample_i') and c['cells'] and draw(st.booleans()):
        c['cells'][0][sel[0]] = 0        # a non-positive cell under log: simply not kept
    nbad = draw(st.sampled_from([None, None, None, 1, 3]))
    int_center = exact and draw(st.booleans())
    return dict(arm='ellipse', int_center=int_center, c=c, sel=sel, spell=[draw(st.sampled_from([True, False, 'neg'])) for _ in sel], center=[cx, cy], a=a, b=b,
                theta=theta, log=log, exact=exact, bad_channels=nbad)


def strategy(tier):
    return st.one_of(_start_end(), _high_low(), _high_low(), _ellipse(), _ellipse())


def _chan(c, j, by_name):
    if by_name == 'neg':
        return j - c['D']
    return c['names'][j] if (by_name and c['kind'].startswith('sample')) else j


def _mask_eq(obs, data, out_full, out_short, exp_mask, what, again=None):
    """gated == data[mask]; short form == full form; mask == expected predicate."""
    if not obs.claim('returns', not raised(out_full) and not raised(out_short),
                     lambda: '%s raised: %r / %r' % (what, out_full, out_short)):
        return
    mask = np.asarray(out_full.mask)
    ok = mask.dtype == bool and mask.shape == (len(exp_mask),)
    obs.claim('mask_is_predicate', ok and bool(np.array_equal(mask, np.array(exp_mask, dtype=bool))),
              lambda: '%s: mask %r, predicate says %r' % (what, mask.astype(int).tolist(), [int(m) for m in exp_mask]))
    if not ok:
        return
    base = np.asarray(data)
    g = out_full.gated_data
    obs.claim('mask_eq', np.asarray(g).shape == base[mask].shape and bool(np.array_equal(np.asarray(g), base[mask], equal_nan=base.dtype.kind == 'f')),
              lambda: '%s: gated_data is not data[mask]' % what)
    obs.claim('short_form', type(out_short) is type(g) and np.asarray(out_short).shape == np.asarray(g).shape
              and bool(np.array_equal(np.asarray(out_short), np.asarray(g), equal_nan=base.dtype.kind == 'f')),
              lambda: '%s: short form differs from gated_data of the full form' % what)
    if hasattr(data, 'channels'):
        ref = fingerprint(data[mask])
        obs.claim('mask_eq', not fp_diff(fingerprint(g), ref) and not fp_diff(fingerprint(out_short), ref),
                  lambda: '%s: metadata of gated sample differs from data[mask]: %r' % (what, fp_diff(fingerprint(g), ref)))
    # the returned mask is the caller's (masks of several gates are commonly combined in place): the same gate asked
    # again afterwards on an equal sample answers as before
    if again is not None and isinstance(out_full.mask, np.ndarray) and out_full.mask.flags.writeable and mask.size:
        mask = mask.copy()
        kept = base[mask].copy()
        out_full.mask[...] = ~mask
        re = again()
        okr = not raised(re) and np.asarray(re.mask).shape == mask.shape and bool(np.array_equal(np.asarray(re.mask), mask)) and \
            np.asarray(re.gated_data).shape == kept.shape and bool(np.array_equal(np.asarray(re.gated_data), kept, equal_nan=base.dtype.kind == 'f'))
        obs.claim('mask_is_predicate', okr, lambda: '%s: asked again after the caller inverted the returned mask in place, the gate answers %r (before: %r)' % (
            what, re if raised(re) else np.asarray(re.mask).astype(int).tolist(), mask.astype(int).tolist()))


def check(case, obs):
    import FlowCal.gate as gate
    arm = case['arm']
    c = case['c']
    data, ranges = _materialise(c)
    cells = c['cells']
    if c.get('post') and c['kind'] == 'sample_i':
        import FlowCal.transform
        fn = dict(sqrt=np.sqrt, log1p=np.log1p)[c['post']]
        data = FlowCal.transform.transform(data, None, fn)
        # the same NumPy function evaluated on the same numbers (not a model of it: C07 owns "limits follow events")
        cells = [[float(fn(np.float64(v))) for v in row] for row in cells]
        ranges = [[float(fn(np.float64(r[0]))), float(fn(np.float64(r[1])))] for r in ranges]
        obs.label('post:' + c['post'])
    N = len(cells)
    obs.label('arm:' + arm, 'kind:' + c['kind'], 'N=0' if N == 0 else ('N=1' if N == 1 else 'N>1'))
    before = fingerprint(data)
    try:
        _check(case, obs, gate, arm, c, data, ranges, cells, N)
    finally:
        obs.claim('input_intact', not fp_diff(before, fingerprint(data)),
                  lambda: 'the gate changed its input: %r' % fp_diff(before, fingerprint(data)))


def _check(case, obs, gate, arm, c, data, ranges, cells, N):
    if arm == 'start_end':
        s, e = case['num_start'], case['num_end']
        s0, e0 = max(s, 0), max(e, 0)
        full = call(gate.start_end, data, num_start=s, num_end=e, full_output=True)
        short = call(gate.start_end, data, num_start=s, num_end=e)
        obs.nontrivial = s0 + e0 >= N - 1 or s < 0 or e < 0
        if s0 + e0 > N:
            obs.claim('refuse', raised(full) and raised(short), lambda: 'dropping %d+%d of %d events accepted' % (s, e, N))
            return
        exp = [s0 <= i < N - e0 for i in range(N)]
        _mask_eq(obs, data, full, short, exp, 'start_end(%d,%d) on %d events' % (s, e, N),
                 again=lambda: call(gate.start_end, data.copy(), num_start=s, num_end=e, full_output=True))
    elif arm == 'high_low':
        sel, form = case['sel'], case['form']
        if form == 'none':
            ch = None
        elif form in ('int', 'name'):
            ch = _chan(c, sel[0], 'neg' if (form == 'int' and case['spell'][0] == 'neg') else form == 'name')
        else:
            ch = [_chan(c, j, sp) for j, sp in zip(sel, case['spell'])]
        lo, hi = case['low'], case['high']
        kw = {}
        if lo is not None:
            kw['low'] = lo
        if hi is not None:
            kw['high'] = hi
        exp = []
        on_edge = False
        for row in cells:
            keep = True
            for j in sel:
                l = lo if lo is not None else (ranges[j][0] if ranges else -math.inf)
                h = hi if hi is not None else (ranges[j][1] if ranges else math.inf)
                x = row[j]
                if x == l or x == h:
                    on_edge = True
                if not (l < x < h):
                    keep = False
            exp.append(keep)
        obs.nontrivial = on_edge or lo is None or hi is None
        obs.label('form:' + form, 'low_default' if lo is None else 'low_given', 'high_default' if hi is None else 'high_given')
        full = call(gate.high_low, data, channels=ch, full_output=True, **kw)
        short = call(gate.high_low, data, channels=ch, **kw)
        _mask_eq(obs, data, full, short, exp, 'high_low(channels=%r, %r)' % (ch, kw),
                 again=lambda: call(gate.high_low, data.copy(), channels=ch, full_output=True, **kw))
    else:
        sel = case['sel']
        ch = [_chan(c, j, sp) for j, sp in zip(sel, case['spell'])]
        cx, cy = case['center']
        center_arg = [int(cx), int(cy)] if case.get('int_center') else [cx, cy]     # plain Python ints are legal centres
        a, b, th, log = case['a'], case['b'], case['theta'], case['log']
        if case['bad_channels'] is not None:
            bad = ([ch[0]] if case['bad_channels'] == 1 else [ch[0], ch[1], ch[0]])
            r = call(gate.ellipse, data, bad, center=[cx, cy], a=a, b=b, theta=th, log=log, full_output=True)
            obs.claim('refuse', raised(r), lambda: 'ellipse with %d channels accepted' % len(bad))
            obs.nontrivial = True
            return
        full = call(gate.ellipse, data, ch, center=center_arg, a=a, b=b, theta=th, log=log, full_output=True)
        short = call(gate.ellipse, data, ch, center=list(center_arg), a=a, b=b, theta=th, log=log)
        if not obs.claim('returns', not raised(full) and not raised(short), lambda: 'ellipse raised %r / %r' % (full, short)):
            return
        cs, sn = math.cos(th), math.sin(th)

        def q_of(x, y):
            if log:
                if x <= 0 or y <= 0:
                    return math.inf
                x, y = math.log10(x), math.log10(y)
            dx, dy = x - cx, y - cy
            return ((dx * cs + dy * sn) / a) ** 2 + ((-dx * sn + dy * cs) / b) ** 2
        mask = np.asarray(full.mask)
        if not obs.claim('mask_is_predicate', mask.dtype == bool and mask.shape == (N,), 'mask shape/dtype'):
            return
        boundary = False
        exp_mask = []
        for i, row in enumerate(cells):
            q = q_of(float(row[sel[0]]), float(row[sel[1]]))
            if case['exact'] and q == 1.0:
                boundary = True
                obs.claim('boundary_kept', bool(mask[i]), lambda: 'point %r exactly on the ellipse not kept' % (row,))
            elif q != q:
                obs.claim('mask_is_predicate', not bool(mask[i]), lambda: 'event %r (not a number) was kept' % (row,))
            elif abs(q - 1.0) > 1e-9:
                obs.claim('mask_is_predicate', bool(mask[i]) == (q <= 1.0),
                          lambda: 'event %r: q=%r but kept=%r (centre %r a=%r b=%r theta=%r log=%r)' % (
                              row, q, bool(mask[i]), (cx, cy), a, b, th, log))
            exp_mask.append(bool(mask[i]))
        obs.nontrivial = boundary or (log and any(r[sel[0]] <= 0 or r[sel[1]] <= 0 for r in cells))
        obs.label('log' if log else 'linear', 'exact_boundary' if boundary else 'no_boundary_point')
        _mask_eq(obs, data, full, short, exp_mask, 'ellipse',
                 again=lambda: call(gate.ellipse, data.copy(), ch, center=list(center_arg), a=a, b=b, theta=th, log=log, full_output=True))
        cont = full.contour
        okc = isinstance(cont, list) and len(cont) == 1 and np.asarray(cont[0]).ndim == 2 and np.asarray(cont[0]).shape[1] == 2
        if not obs.claim('contour', okc, lambda: 'contour container %r' % (type(cont),)):
            return
        pts = np.asarray(cont[0], dtype=float)
        qs = [q_of(float(px), float(py)) for px, py in pts]
        tolq = 1e-9 * (1 + (abs(cx) + abs(cy)) / min(a, b)) * 10
        obs.claim('contour', all(abs(q - 1.0) <= tolq for q in qs),
                  lambda: 'contour point off the ellipse: worst |q-1| = %r' % max(abs(q - 1.0) for q in qs))
        P = np.log10(pts) if log else pts
        dx, dy = P[:, 0] - cx, P[:, 1] - cy
        ang = np.arctan2((-dx * sn + dy * cs) / b, (dx * cs + dy * sn) / a)
        sa = np.sort(np.mod(ang, 2 * math.pi))
        gaps = np.diff(np.concatenate([sa, [sa[0] + 2 * math.pi]]))
        obs.claim('contour', float(gaps.max()) < math.radians(5.0) and bool(np.allclose(P[0], P[-1], atol=1e-9 * (1 + abs(cx) + abs(cy)))),
                  lambda: 'contour is not a closed curve around the ellipse (max angular gap %.2f deg)' % math.degrees(gaps.max()))
