"""C15 -- a well-formed workbook always yields a complete, faithful output workbook."""
import math
import os
import re
import shutil
import time
import warnings

import numpy as np
import pandas as pd
from hypothesis import strategies as st

from pbt import xlgen
from pbt.runner import workdir, Obs
from pbt.samples import call, raised

ID = 'C15'
LEVEL = 'exploration'
ENGINES = ['hypothesis', 'shipped example workbook']
RULE = ('(a) Hypothesis draws workbooks from the C10 experiment generator (healthy rows plus rows with documented '
        'faults: missing file, gate fraction 1.5, unknown units; bead rows with 1..3 clustering channels) written '
        'to disk with their FCS files, and options plots on/off x histogram sheet on/off x explicit / default '
        'output path; (b) tables of 0..6 columns x 0..8 rows of strings, integers (|v|<2^53), finite floats and '
        'empty cells with unique column names and an identifier column with empty cells (and, separately, '
        'duplicated identifiers) for the write/read round trip; (c) the shipped examples/experiment.xlsx (copied '
        'with its FCS files; without plots in the quick tier, with plots in the thorough tier).  Non-trivial = '
        'workbook with >=1 bead row, >=2 sample rows and plots or histogram sheet on; table with mixed types and '
        'at least one empty cell.')
ASSUMPTIONS = ['floats are drawn within +-1e300 and compared at rel. 1e-14 (the XLSX writer keeps 16 significant digits)',
               'strings are drawn without a leading "=", without XML-illegal control characters and outside the '
               "NA spellings pandas' reader turns into empty cells (spreadsheet / pandas semantics, not part of the "
               'stated round trip)', 'a run that exceeds 180 s is reported as inconclusive (excluded), never as a '
               'violation', '.xls input is not generated (the installed xlrd cannot be used by this pandas)']
BUDGET = {
    'quick': dict(examples=330, time_s=600, shrink=False),
    'thorough': dict(examples=12000, time_s=3300, shrink=True, shrink_cap_s=240),
}

SAMPLE_STATS = ['Detector Volt.', 'Amp. Type', 'Mean', 'Geom. Mean', 'Median', 'Mode', 'Std', 'CV', 'Geom. Std', 'Geom. CV',
                'IQR', 'RCV']
BEAD_COLS = ['Detector Volt.', 'Amp. Type', 'Beads Model', 'Beads Params. Names', 'Beads Params. Values']
NA_WORDS = {'', '#N/A', '#N/A N/A', '#NA', '-1.#IND', '-1.#QNAN', '-NaN', '-nan', '1.#IND', '1.#QNAN', '<NA>', 'N/A', 'NA',
            'NULL', 'NaN', 'None', 'n/a', 'nan', 'null'}


# ----------------------------------------------------------------------------------------------
# strategies
# ----------------------------------------------------------------------------------------------

_txt = st.text(alphabet=st.characters(min_codepoint=32, max_codepoint=0x2fff, blacklist_categories=('Cs', 'Cc', 'Zl', 'Zp')),
               min_size=1, max_size=12).map(lambda s: s.strip()).filter(
    lambda s: s and not s.startswith('=') and s not in NA_WORDS and not _numeric(s))


def _numeric(s):
    try:
        float(s)
        return True
    except ValueError:
        return s.lower() in ('true', 'false', 'inf', '-inf', 'infinity')


_cell = st.one_of(st.none(), _txt, st.integers(-2 ** 53 + 1, 2 ** 53 - 1), st.floats(min_value=-1e300, max_value=1e300, allow_nan=False),
                  st.sampled_from([0, 1, -1, 0.5, 1e-300, 1e300]))


@st.composite
def _table_case(draw):
    ncol = draw(st.sampled_from([0, 1, 2, 3, 4, 6]))
    nrow = draw(st.sampled_from([0, 1, 2, 3, 5, 8]))
    cols = draw(st.lists(_txt, min_size=ncol, max_size=ncol, unique=True).filter(lambda l: 'ID' not in l))
    dup = draw(st.sampled_from([False, False, False, True])) and nrow >= 2
    ids = []
    for i in range(nrow):
        kind = draw(st.sampled_from(['s', 's', 'i', 'empty']))
        ids.append(None if kind == 'empty' else ('row %d' % i if kind == 's' else 1000 + i))
    if dup:
        present = [i for i in ids if i is not None]
        if len(present) >= 1:
            ids[-1] = present[0] if ids[-1] != present[0] or len(present) > 1 else present[0]
            ids[0] = ids[-1]
    rows = [[draw(_cell) for _ in range(ncol)] for _ in range(nrow)]
    return dict(arm='table', cols=cols, ids=ids, rows=rows, dup=dup)


@st.composite
def _run_case(draw):
    c = draw(xlgen.experiment(max_inst=2, max_beads=2, max_samples=3, min_samples=1))
    # documented faults on some rows
    for s in c['samples']:
        f = draw(st.sampled_from([None, None, None, 'missing', 'gate_fraction', 'units']))
        s['fault'] = f
        if f == 'missing':
            s['file'] = 'absent_' + s['file']
        elif f == 'gate_fraction':
            s['gate_fraction'] = 1.5
        elif f == 'units':
            s['units'] = dict(s['units'])
            s['units'][c_first_fl(c, s)] = 'furlongs'
    for b in c['beads']:
        b['fault'] = draw(st.sampled_from([None, None, None, 'missing']))
        if b['fault'] == 'missing':
            b['file'] = 'absent_' + b['file']
    # a bead row that fails makes MEF rows referring to it fail as well (documented: calibration missing)
    c.update(arm='run', plot=draw(st.sampled_from([False, False, True])), hist=draw(st.booleans()),
             default_out=draw(st.booleans()))
    return c


def c_first_fl(c, s):
    inst = [i for i in c['instruments'] if i['id'] == s['instrument']][0]
    return inst['fl'][0]


def strategy(tier):
    return st.sampled_from(['table'] * 24 + ['run']).flatmap(lambda k: _table_case() if k == 'table' else _run_case())


# ----------------------------------------------------------------------------------------------
# table round trip
# ----------------------------------------------------------------------------------------------

def _same_cell(a, b):
    an = a is None or (isinstance(a, float) and math.isnan(a))
    # pandas returns '' for the empty cells of a column that also holds an integer beyond int64
    bn = b is None or b == '' or (isinstance(b, float) and math.isnan(b)) or (not isinstance(b, str) and pd.isnull(b))
    if an or bn:
        return an and bn
    if isinstance(a, str) or isinstance(b, str):
        return isinstance(a, str) and isinstance(b, str) and a == b
    # numbers are compared numerically; the XLSX writer serialises floats with 16 significant digits
    return float(a) == float(b) or abs(float(a) - float(b)) <= 1e-14 * max(abs(float(a)), abs(float(b)))


def check_table(case, obs):
    import FlowCal.excel_ui as xl
    cols, ids, rows = case['cols'], case['ids'], case['rows']
    df = pd.DataFrame([[i] + r for i, r in zip(ids, rows)], columns=['ID'] + cols)
    for c in df.columns:
        df[c] = df[c].astype(object)
    t = df.set_index('ID')
    path = os.path.join(workdir(), 'c15t.xlsx')
    other = pd.DataFrame({'Value': ['x']}, index=pd.Index(['k'], name='Keyword'))
    bare = (len(cols) + len(ids)) % 3 == 0
    if bare:
        # a file name without any directory part, relative to the current directory
        cwd = os.getcwd()
        os.chdir(workdir())
        try:
            w = call(xl.write_workbook, 'c15t.xlsx', [('First', other), ('Data sheet', t)])
        finally:
            os.chdir(cwd)
        obs.label('bare_file_name')
    else:
        w = call(xl.write_workbook, path, [('First', other), ('Data sheet', t)])
    mixed = len({type(v).__name__ for r in rows for v in r if v is not None}) >= 2
    has_empty = any(v is None for r in rows for v in r)
    obs.nontrivial = mixed and has_empty
    obs.label('table', 'dup_ids' if case['dup'] else 'unique_ids', 'rows:%d' % len(ids), 'cols:%d' % len(cols))
    if not obs.claim('round_trip', not raised(w), lambda: 'write_workbook raised %r' % (w,)):
        return
    back = call(xl.read_table, path, 'Data sheet', 'ID')
    # the identifier column may be named or given by its position ("column name or index"): one and the same answer
    back0 = call(xl.read_table, path, 'Data sheet', 0)
    obs.claim('round_trip', raised(back) == raised(back0) and (raised(back) or (list(back0.index) == list(back.index) or
              (len(back0.index) == len(back.index) and all(_same_cell(a_, b_) for a_, b_ in zip(back0.index, back.index))))),
              lambda: 'identifier column by position: %r, by name: %r' % (back0 if raised(back0) else list(back0.index), back if raised(back) else list(back.index)))
    present = [i for i in ids if i is not None]
    if len(set(map(str, present))) < len(present):
        obs.claim('duplicates_refused', raised(back) and back.name == 'ValueError',
                  lambda: 'duplicated identifiers %r accepted: %r' % (ids, back))
        return
    if not obs.claim('round_trip', not raised(back), lambda: 'read_table raised %r' % (back,)):
        return
    keep = [k for k, i in enumerate(ids) if i is not None]
    ok = (list(back.columns) == cols and len(back.index) == len(keep) and back.index.name == 'ID'
          and all(_same_cell(ids[k], x) for k, x in zip(keep, back.index)))
    obs.claim('round_trip', ok, lambda: 'columns %r / index %r read back as %r / %r' % (cols, [ids[k] for k in keep], list(back.columns), list(back.index)))
    if not ok:
        return
    bad = None
    for r_out, k in enumerate(keep):
        for c, name in enumerate(cols):
            if not _same_cell(rows[k][c], back.iloc[r_out, c]):
                bad = (ids[k], name, rows[k][c], back.iloc[r_out, c])
                break
        if bad:
            break
    obs.claim('round_trip', bad is None, lambda: 'cell (row, column, written, read) = %r' % (bad,))
    obs.claim('rows_without_id_dropped', len(back) == len(keep), 'rows without identifier were not dropped')
    first = call(xl.read_table, path, 'First', 'Keyword')
    obs.claim('round_trip', not raised(first) and list(first.index) == ['k'] and first.iloc[0, 0] == 'x', 'first sheet not preserved')


# ----------------------------------------------------------------------------------------------
# full runs
# ----------------------------------------------------------------------------------------------

def _png_ok(p):
    try:
        with open(p, 'rb') as f:
            return f.read(8) == b'\x89PNG\r\n\x1a\n' and os.path.getsize(p) > 500
    except OSError:
        return False


def _cells_equal(a, b):
    if (a is None or (not isinstance(a, str) and pd.isnull(a))) or (b is None or (not isinstance(b, str) and pd.isnull(b))):
        return (a is None or (not isinstance(a, str) and pd.isnull(a))) and (b is None or (not isinstance(b, str) and pd.isnull(b)))
    if isinstance(a, str) or isinstance(b, str):
        return str(a) == str(b)
    return float(a) == float(b)


def verify_output(obs, in_path, out_path, hist, expect):
    """Sheets, preserved input, documented result columns.  expect: dict(beads_mef={id: [ch]}, units_cols=[...])"""
    import openpyxl
    import FlowCal.excel_ui as xl
    if not obs.claim('output_exists', os.path.exists(out_path), lambda: 'no output workbook at %s' % out_path):
        return
    names = openpyxl.load_workbook(out_path, read_only=True).sheetnames
    want = ['Instruments', 'Beads', 'Samples'] + (['Histograms'] if hist else []) + ['About Analysis']
    obs.claim('sheets', names == want, lambda: 'sheets %r, expected %r' % (names, want))
    if names != want:
        return
    for sheet in ('Instruments', 'Beads', 'Samples'):
        tin = pd.read_excel(in_path, sheet_name=sheet, engine='openpyxl')
        tin = tin[pd.notnull(tin['ID'])]
        tout = pd.read_excel(out_path, sheet_name=sheet, engine='openpyxl')
        k = len(tin.columns)
        ok = list(tout.columns[:k]) == list(tin.columns) and len(tout) == len(tin)
        obs.claim('preserved', ok, lambda: '%s: input columns %r / %d rows, output starts with %r / %d rows' % (
            sheet, list(tin.columns), len(tin), list(tout.columns[:k]), len(tout)))
        if not ok:
            continue
        bad = None
        for r in range(len(tin)):
            for c in range(k):
                if not _cells_equal(tin.iloc[r, c], tout.iloc[r, c]):
                    bad = (sheet, r, tin.columns[c], tin.iloc[r, c], tout.iloc[r, c])
        obs.claim('preserved', bad is None, lambda: 'input cell changed (sheet, row, column, in, out) = %r' % (bad,))
        added = list(tout.columns[k:])
        if sheet == 'Instruments':
            obs.claim('result_columns', added == [], lambda: 'Instruments sheet got columns %r' % added)
        else:
            base = ['Analysis Notes', 'Number of Events', 'Acquisition Time (s)']
            if sheet == 'Beads':
                chans = [m_.group(1) for m_ in (re.match(r'^\s*(\S(?:.*\S)?)\s+MEF\s+Values\s*$', str(c)) for c in tin.columns) if m_]
                exp_added = base + [ch + ' ' + x for ch in chans for x in BEAD_COLS]
                if not any(v for v in expect['beads_healthy']):
                    exp_alt = base + [ch + ' ' + x for ch in chans for x in BEAD_COLS[:2]]
                else:
                    exp_alt = exp_added
            else:
                chans = [m_.group(1) for m_ in (re.match(r'^\s*(\S(?:.*\S)?)\s+Units\s*$', str(c)) for c in tin.columns) if m_]
                exp_added = exp_alt = base + [ch + ' ' + x for ch in chans for x in SAMPLE_STATS]
            obs.claim('result_columns', added in (exp_added, exp_alt),
                      lambda: '%s sheet: added columns %r, documented %r' % (sheet, added, exp_added))
            # healthy rows have counts, faulty rows have ERROR notes
            for r in range(len(tout)):
                rid = str(tout.iloc[r, 0])
                if rid in expect['faulty']:
                    obs.claim('notes', isinstance(tout['Analysis Notes'].iloc[r], str) and tout['Analysis Notes'].iloc[r].startswith('ERROR:'),
                              lambda: '%s row %s should carry an ERROR note: %r' % (sheet, rid, tout['Analysis Notes'].iloc[r]))
                elif rid in expect['healthy']:
                    obs.claim('notes', not (isinstance(tout['Analysis Notes'].iloc[r], str) and tout['Analysis Notes'].iloc[r].startswith('ERROR:'))
                              and tout['Number of Events'].iloc[r] > 0,
                              lambda: '%s row %s should be healthy: %r' % (sheet, rid, tout['Analysis Notes'].iloc[r]))
    about = pd.read_excel(out_path, sheet_name='About Analysis', engine='openpyxl')
    obs.claim('about', list(about.columns) == ['Keyword', 'Value'] and 'FlowCal version' in list(about['Keyword'])
              and 'Input file path' in list(about['Keyword']), lambda: 'About sheet %r' % about.to_dict())


def check_run(case, obs):
    import matplotlib
    matplotlib.use('Agg')
    import matplotlib.pyplot as plt
    import FlowCal.excel_ui as xl
    base = os.path.join(workdir(), 'c15run')
    shutil.rmtree(base, ignore_errors=True)
    os.makedirs(base)
    try:
        it, bt, stab = xlgen.materialise(case, base)
        stem = ['experiment 1', 'experiment.v2 final', 'run.2020.01.05'][case['np_seed'] % 3]
        in_path = os.path.join(base, stem + '.xlsx')
        xlgen.write_input(in_path, it, bt, stab)
        out_path = os.path.join(base, stem + '_output.xlsx') if case['default_out'] else os.path.join(base, 'results', 'out.xlsx')
        if not case['default_out']:
            os.makedirs(os.path.dirname(out_path))
        np.random.seed(case['np_seed'])
        t0 = time.time()
        with warnings.catch_warnings():
            warnings.simplefilter('ignore')
            if case['np_seed'] % 4 == 1:
                # started from inside the experiment folder: input (and output) named without a directory part
                if not case['default_out']:
                    out_path = os.path.join(base, 'out.xlsx')
                cwd = os.getcwd()
                os.chdir(base)
                try:
                    r = call(xl.run, stem + '.xlsx', None if case['default_out'] else 'out.xlsx', verbose=False, plot=case['plot'],
                             hist_sheet=case['hist'])
                finally:
                    os.chdir(cwd)
                obs.label('run_from_inside_the_folder')
            else:
                r = call(xl.run, in_path, None if case['default_out'] else out_path, verbose=False, plot=case['plot'], hist_sheet=case['hist'])
        plt.close('all')
        took = time.time() - t0
        obs.label('run', 'plot' if case['plot'] else 'no_plot', 'hist' if case['hist'] else 'no_hist',
                  'default_out' if case['default_out'] else 'explicit_out')
        obs.nontrivial = len(case['beads']) >= 1 and len(case['samples']) >= 2 and (case['plot'] or case['hist'])
        if took > 180:
            obs.exclude('over_time_budget')
            return
        if not obs.claim('completes', not raised(r), lambda: 'excel_ui.run raised %r (plot=%r hist=%r)' % (r, case['plot'], case['hist'])):
            return
        # which rows are healthy
        bead_ok = {b['id']: b.get('fault') is None for b in case['beads']}
        faulty, healthy = set(), set()
        for b in case['beads']:
            (healthy if bead_ok[b['id']] else faulty).add(b['id'])
        for s in case['samples']:
            f = s.get('fault') is not None
            if not f and any(u.strip().lower() == 'mef' for u in s['units'].values()) and not bead_ok.get(s['beads'], False):
                f = True            # calibration missing: the referenced bead row failed
            (faulty if f else healthy).add(s['id'])
        verify_output(obs, in_path, out_path, case['hist'], dict(faulty=faulty, healthy=healthy,
                                                                  beads_healthy=[bead_ok[b['id']] for b in case['beads']]))
        if case['default_out']:
            obs.claim('default_path', os.path.exists(os.path.join(base, stem + '_output.xlsx')),
                      lambda: 'default output path %s_output.xlsx not used; directory holds %r' % (stem, sorted(os.listdir(base))))
        # figures
        if case['plot']:
            insts = {i['id']: i for i in case['instruments']}
            for b in case['beads']:
                want = ['density_hist_%s.png' % b['id']]
                if b['mef']:
                    want.append('clustering_%s.png' % b['id'])
                    for ch in insts[b['instrument']]['fl']:
                        if b['mef'].get(ch) is not None:
                            want += ['populations_%s_%s.png' % (ch, b['id']), 'std_crv_%s_%s.png' % (ch, b['id'])]
                for f in want:
                    p = os.path.join(base, 'plot_beads', f)
                    if bead_ok[b['id']]:
                        obs.claim('figures', _png_ok(p), lambda: 'figure %s missing or empty (clustering channels %r)' % (f, b['clustering']))
                    else:
                        obs.claim('figures', not os.path.exists(p), lambda: 'figure %s written for a failed bead row' % f)
                if len(b['clustering']) >= 3 and bead_ok[b['id']]:
                    obs.label('clustering_3d')
            for s in case['samples']:
                p = os.path.join(base, 'plot_samples', '%s.png' % s['id'])
                if s['id'] in healthy:
                    obs.claim('figures', _png_ok(p), lambda: 'figure %s.png missing or empty' % s['id'])
                else:
                    obs.claim('figures', not os.path.exists(p), lambda: 'figure written for faulty sample row %s' % s['id'])
        else:
            obs.claim('figures', not os.path.exists(os.path.join(base, 'plot_samples')) or not os.listdir(os.path.join(base, 'plot_samples')),
                      'figures written although plots were not requested')
    finally:
        shutil.rmtree(base, ignore_errors=True)


def check(case, obs):
    if case['arm'] == 'table':
        check_table(case, obs)
    elif case['arm'] == 'run':
        check_run(case, obs)
    else:
        check_example(case, obs)


# ----------------------------------------------------------------------------------------------
# the shipped example
# ----------------------------------------------------------------------------------------------

def curated_runs():
    """Deterministic workbooks for combinations the random search reaches rarely within the quick budget."""
    lad = ', '.join(str(v) for v in xlgen.LADDER)
    i1 = dict(id='I1', fsc='FSC-H', ssc='SSC-H', fl=['FL1-H', 'FL2-H', 'FL3-H'], time='Time')

    def cells(seed, res=1024, dt='I'):
        return dict(kind='cells', instrument='I1', seed=seed, n=600, datatype=dt, res=res)

    def srow(i, f, units, **kw):
        r = dict(id='S%d' % i, instrument='I1', beads='B1', file=f, gate_fraction=0.5, units=units, strain='wt', fault=None)
        r.update(kw)
        return r
    b1 = dict(id='B1', instrument='I1', file='beads1.fcs', gate_fraction=0.3, clustering=['FL1-H'], mef={'FL1-H': lad}, fault=None)
    out = []
    # samples with different resolutions, the lowest one last, histogram sheet on
    out.append(dict(arm='run', instruments=[i1], beads=[b1],
                    files={'beads1.fcs': dict(kind='beads', instrument='I1', seed=3), 'c1.fcs': cells(4, 1024), 'c2.fcs': cells(5, 4096),
                           'c3.fcs': cells(6, 256), 'c4.fcs': cells(7, 1024, 'F'), 'c5.fcs': dict(cells(10, 1024, 'F'), tiny_neg=True),
                           'c6.fcs': dict(cells(11), no_volt=True)},
                    samples=[srow(1, 'c1.fcs', {'FL1-H': 'MEF', 'FL2-H': 'Channel'}), srow(2, 'c2.fcs', {'FL1-H': 'RFI'}),
                             srow(3, 'c4.fcs', {'FL2-H': 'a.u.'}, beads=None), srow(5, 'c5.fcs', {'FL1-H': 'RFI'}, beads=None),
                             srow(6, 'c6.fcs', {'FL1-H': 'MEF'}),          # calibrated; the file records no detector voltages
                             srow(4, 'c3.fcs', {'FL1-H': 'Channel', 'FL3-H': 'rfi'})],         # (the lowest resolution stays last)
                    np_seed=3, plot=False, hist=True, default_out=True, header_ws=True))
    # every row faulty except one; two clustering channels; plots on
    out.append(dict(arm='run', instruments=[i1],
                    beads=[dict(b1, clustering=['FL1-H', 'FL2-H']), dict(b1, id='B2', file='absent_beads.fcs', fault='missing')],
                    files={'beads1.fcs': dict(kind='beads', instrument='I1', seed=8), 'c1.fcs': cells(9)},
                    samples=[srow(1, 'absent.fcs', {'FL1-H': 'RFI'}, fault='missing'), srow(2, 'c1.fcs', {'FL1-H': 'MEF'}, beads='B2'),
                             srow(3, 'c1.fcs', {'FL1-H': 'MEF', 'FL3-H': 'au'}), srow(4, 'c1.fcs', {'FL1-H': 'furlongs'}, fault='units'),
                             srow(5, 'c1.fcs', {'FL1-H': 'rfi'}, gate_fraction=1.5, fault='gate_fraction'),
                             srow(6, 'c1.fcs', {}, beads=None)],            # no channel reported at all: a figure with one panel
                    np_seed=4, plot=True, hist=False, default_out=False))
    # eleven reported fluorescence channels in one sample row, plots on (more histograms than default colours)
    fl11 = ['FL%d-A' % i for i in range(1, 12)]
    i11 = dict(id='I1', fsc='FSC-A', ssc='SSC-A', fl=fl11, time='Time')
    out.append(dict(arm='run', instruments=[i11],
                    # a beads row clustered on four channels (the clustering figure shows the first three)
                    beads=[dict(id='B1', instrument='I1', file='beads1.fcs', gate_fraction=0.3, clustering=fl11[:4], mef={fl11[0]: lad}, fault=None)],
                    files={'c1.fcs': dict(kind='cells', instrument='I1', seed=21, n=450, datatype='I'),
                           'beads1.fcs': dict(kind='beads', instrument='I1', seed=22)},
                    samples=[dict(id='S1', instrument='I1', beads=None, file='c1.fcs', gate_fraction=0.5,
                                  units={c: ('RFI' if i % 2 else 'Channel') for i, c in enumerate(fl11)}, strain='wt', fault=None)],
                    np_seed=5, plot=True, hist=False, default_out=True))
    # identifiers that are numbers (a spreadsheet hands them over as integers), two instruments whose files name
    # their channels differently, plots on, calibration requested
    i2 = dict(id=2, fsc='FSC-A', ssc='SSC-A', fl=['GFP', 'mCherry'], time='TIME')
    i1n = dict(i1, id=1)
    out.append(dict(arm='run', instruments=[i1n, i2], beads=[dict(b1, id=0, instrument=1), dict(b1, id=2, instrument=2, file='beads2.fcs', clustering=['GFP'], mef={'GFP': lad})],
                    files={'beads1.fcs': dict(kind='beads', instrument=1, seed=13), 'beads2.fcs': dict(kind='beads', instrument=2, seed=14),
                           'c1.fcs': dict(cells(15), instrument=1), 'c2.fcs': dict(cells(16), instrument=2)},
                    samples=[dict(srow(1, 'c1.fcs', {'FL1-H': 'MEF', 'FL2-H': 'RFI'}), id=101, instrument=1, beads=0),      # (an identifier may be 0)
                             dict(srow(2, 'c2.fcs', {'GFP': 'MEF'}), id=102, instrument=2, beads=2),
                             dict(srow(3, 'c2.fcs', {'mCherry': 'a.u.'}), id=103, instrument=2, beads=None)],
                    np_seed=6, plot=True, hist=True, default_out=False))
    return out


def exhaustive_jobs(tier):
    return [dict(arm='example', plot=(tier == 'thorough'), hist=True)] + curated_runs()


def check_example(case, obs):
    import matplotlib
    matplotlib.use('Agg')
    import matplotlib.pyplot as plt
    import FlowCal
    import FlowCal.excel_ui as xl
    src = os.path.join(os.path.dirname(os.path.dirname(os.path.abspath(FlowCal.__file__))), 'examples')
    base = os.path.join(workdir(), 'c15ex')
    shutil.rmtree(base, ignore_errors=True)
    try:
        os.makedirs(base)
        shutil.copy(os.path.join(src, 'experiment.xlsx'), base)
        shutil.copytree(os.path.join(src, 'FCFiles'), os.path.join(base, 'FCFiles'))
        in_path = os.path.join(base, 'experiment.xlsx')
        np.random.seed(1)
        with warnings.catch_warnings():
            warnings.simplefilter('ignore')
            r = call(xl.run, in_path, None, verbose=False, plot=case['plot'], hist_sheet=case['hist'])
        plt.close('all')
        obs.label('shipped_example', 'plot' if case['plot'] else 'no_plot')
        obs.nontrivial = True
        if not obs.claim('completes', not raised(r), lambda: 'excel_ui.run on the shipped example raised %r' % (r,)):
            return
        beads = pd.read_excel(in_path, sheet_name='Beads', engine='openpyxl')
        samples = pd.read_excel(in_path, sheet_name='Samples', engine='openpyxl')
        ids = set(str(x) for x in list(beads['ID']) + list(samples['ID']) if pd.notnull(x))
        verify_output(obs, in_path, os.path.join(base, 'experiment_output.xlsx'), case['hist'],
                      dict(faulty=set(), healthy=ids, beads_healthy=[True] * len(beads)))
        if case['plot']:
            for bid in beads['ID']:
                obs.claim('figures', _png_ok(os.path.join(base, 'plot_beads', 'density_hist_%s.png' % bid))
                          and _png_ok(os.path.join(base, 'plot_beads', 'clustering_%s.png' % bid)), lambda: 'bead figures of %s' % bid)
            for sid in samples['ID']:
                obs.claim('figures', _png_ok(os.path.join(base, 'plot_samples', '%s.png' % sid)), lambda: 'sample figure %s' % sid)
    finally:
        shutil.rmtree(base, ignore_errors=True)


def run_job(job):
    obs = Obs()
    try:
        check(job, obs)
    except Exception as e:
        obs.failures.append(('crash', '%s: %s: %s' % (job['arm'], type(e).__name__, e)))
    return dict(evaluations=1, nontrivial=1, failures=[(t, m, job) for t, m in obs.failures[:5]],
                labels={'shipped_example' if job['arm'] == 'example' else 'curated_run': 1},
                claims=dict(obs.claims), samples=[job], complete=True)
