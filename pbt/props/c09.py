"""C09 -- fitting the bead model recovers the law that generated the beads."""
import math

import numpy as np
from hypothesis import strategies as st

from pbt.samples import call, raised

ID = 'C09'
LEVEL = 'exploration'
RULE = ('Hypothesis draws (m in [0.85,1.25], b in [0,7], autofluorescence in {0} U [1,5000] log-uniform, a '
        'ladder of 5..10 MEF values from four realistic ladders or a random geometric ladder of ratio '
        '2.5..4, optional blank) with >=5 populations above 3x the autofluorescence; RFI values are computed '
        'exactly from the model, then fitted.  A second arm fits arbitrary increasing positive pairs (3..10) '
        'for the structural identities; a third arm checks refusals.  Non-trivial = autofluorescence>0 with '
        'a blank population, or m outside [0.95,1.05].')
ASSUMPTIONS = ['the generating law is evaluated in math floats by the oracle',
               'recovery tolerance 5% over the span of the beads, as the property states']
BUDGET = {
    'quick': dict(examples=2400, time_s=240),
    'thorough': dict(examples=120000, time_s=1500, fuzz=dict(workers=8, runs=6000, max_s=300)),
}

LADDERS = [
    [792., 2079., 6588., 16471., 47497., 137049., 271647.],          # MEFL
    [505., 1777., 4974., 13118., 36757., 94930., 222102.],           # MEPE
    [1614., 4035., 12025., 31896., 95682., 353225., 1077421.],       # MECY
    [646., 1704., 4827., 15991., 47609., 135896., 273006.],          # MEBFP
    [200., 700., 2200., 7000., 22000., 70000., 220000., 700000., 2.2e6],
]


@st.composite
def _recover(draw):
    m = draw(st.one_of(st.floats(0.85, 1.25), st.sampled_from([0.85, 1.0, 1.25])))
    b = draw(st.one_of(st.floats(0, 7), st.sampled_from([0.0, 7.0])))
    if draw(st.booleans()):
        lad = list(draw(st.sampled_from(LADDERS)))
        k = draw(st.integers(5, len(lad)))
        start = draw(st.integers(0, len(lad) - k))
        lad = lad[start:start + k]
    else:
        k = draw(st.integers(5, 10))
        v = draw(st.floats(50, 3000))
        lad = []
        for _ in range(k):
            lad.append(v)
            v *= draw(st.floats(2.5, 4.0))
    # autofluorescence: at least five populations above 3x
    edge = draw(st.sampled_from([False, False, False, True]))
    if edge and draw(st.booleans()):
        lad = lad[-5:]                  # exactly the five populations the precondition asks for
    cap = sorted(lad)[-5] / 3.0
    if edge and cap >= 2.0:
        # the edge of the precondition: autofluorescence close to the largest value it allows, large intercept
        auto = min(5000.0, cap) * draw(st.floats(0.1, 1.0))
        b = draw(st.floats(5.0, 7.0))
    elif draw(st.sampled_from([True, False, False, False, False])) or cap < 1.0:
        auto = 0.0
    else:
        auto = math.exp(draw(st.floats(0.0, math.log(min(5000.0, cap)))))
    blank = auto > 0 and draw(st.booleans()) and len(lad) < 10
    # callers hand over float arrays, integer arrays (manufacturer values are whole numbers) or lists
    container = draw(st.sampled_from(['float_array', 'float_array', 'int_array', 'list', 'f32_array', 'readonly']))
    if container == 'int_array':
        lad = [float(round(v)) for v in lad]
    return dict(arm='recover', m=m, b=b, auto=auto, mef=([0.0] if blank else []) + lad, container=container)


@st.composite
def _structural(draw):
    if draw(st.booleans()):
        # a realistic ladder measured with a few percent of noise (no recovery claim: only the structural identities);
        # noise can make the unconstrained optimum's autofluorescence negative, the reported one never is
        lad = list(draw(st.sampled_from(LADDERS)))
        k = draw(st.integers(3, len(lad)))
        lad = lad[:k] if draw(st.booleans()) else lad[-k:]
        m, b = draw(st.floats(0.85, 1.25)), draw(st.floats(0, 7))
        auto = draw(st.sampled_from([0.0, 0.0, 5.0, 300.0]))
        rfi = [math.exp((math.log(v + auto) - b) / m) * draw(st.floats(0.93, 1.07)) for v in lad]
        rfi = sorted(rfi)
        if all(x2 > x1 for x1, x2 in zip(rfi, rfi[1:])):
            return dict(arm='structural', rfi=rfi, mef=lad)
    k = draw(st.integers(3, 10))
    x = draw(st.floats(0.5, 200))
    y = draw(st.floats(1, 5000))
    xs, ys = [], []
    for _ in range(k):
        xs.append(x)
        ys.append(y)
        x *= draw(st.floats(1.3, 6))
        y *= draw(st.floats(1.3, 6))
    return dict(arm='structural', rfi=xs, mef=ys)


@st.composite
def _refuse(draw):
    if draw(st.booleans()):
        k = draw(st.integers(0, 2))
        return dict(arm='refuse', rfi=[10.0 * 3 ** i for i in range(k)], mef=[100.0 * 3 ** i for i in range(k)])
    k = draw(st.integers(3, 8))
    j = draw(st.integers(1, 10).filter(lambda j: j != k))
    return dict(arm='refuse', rfi=[10.0 * 3 ** i for i in range(k)], mef=[100.0 * 3 ** i for i in range(j)])


def strategy(tier):
    return st.one_of(_recover(), _recover(), _recover(), _structural(), _refuse())


def _structure(out, rfi, obs):
    std_crv, beads_model, params = out[0], out[1], np.asarray(out[2], dtype=float)
    m_fit, b_fit, auto_fit = float(params[0]), float(params[1]), float(params[2])
    obs.claim('auto_nonneg', auto_fit >= 0, lambda: 'fitted autofluorescence %r' % auto_fit)
    grid = np.exp(np.linspace(math.log(min(rfi)) - 1.0, math.log(max(rfi)) + 1.0, 60))
    sc = np.asarray(std_crv(grid), dtype=float)
    scn = np.asarray(std_crv(-grid), dtype=float)
    obs.claim('odd', bool(np.all(scn == -sc)), 'std_crv(-x) != -std_crv(x)')
    if m_fit > 0:
        z = std_crv(np.array([0.0]))
        obs.claim('zero', float(np.asarray(z)[0]) == 0.0 and float(std_crv(0.0)) == 0.0, lambda: 'std_crv(0)=%r' % (z,))
        obs.claim('increasing', bool(np.all(np.diff(sc) > 0)), 'std_crv not increasing for positive slope')
    else:
        obs.exclude('nonpositive_fitted_slope')
    expect = np.exp(b_fit) * grid ** m_fit
    obs.claim('params_consistent', bool(np.allclose(sc, expect, rtol=1e-9, atol=0)),
              'std_crv(x) != exp(p[1])*x**p[0]')
    bm = np.asarray(beads_model(grid), dtype=float)
    obs.claim('model_identity', bool(np.allclose(bm, sc - auto_fit, rtol=1e-9, atol=1e-9 * max(1.0, auto_fit))),
              'beads_model(x) != std_crv(x) - autofluorescence')
    obs.claim('names', list(out[4]) == ['m', 'b', 'fl_mef_auto'] and isinstance(out[3], str), 'parameter names')
    # several channels at once: a two-dimensional array is converted element by element, signs and all
    g2 = np.array([[grid[3], -grid[5]], [-grid[7], grid[9]], [grid[11], grid[13]], [-grid[15], -grid[17]]])
    v2 = call(std_crv, g2)
    ref2 = np.array([[float(std_crv(float(v))) for v in row] for row in g2])
    obs.claim('odd', not raised(v2) and np.asarray(v2).shape == g2.shape and bool(np.allclose(np.asarray(v2, dtype=float), ref2, rtol=1e-12)),
              lambda: 'std_crv on a 2-D array with mixed signs: %r, element by element %r' % (v2, ref2.tolist()))
    v2f = call(std_crv, np.asfortranarray(g2))            # the same numbers in column-major memory order
    obs.claim('odd', not raised(v2f) and bool(np.allclose(np.asarray(v2f, dtype=float), ref2, rtol=1e-12)),
              lambda: 'std_crv on a column-major 2-D array: %r, element by element %r' % (v2f, ref2.tolist()))
    # an array that starts with an exact zero is converted element by element like any other
    lead0 = np.concatenate([[0.0], grid])
    v0 = call(std_crv, lead0)
    obs.claim('params_consistent', not raised(v0) and np.asarray(v0).shape == lead0.shape and float(np.asarray(v0)[0]) == 0.0
              and bool(np.allclose(np.asarray(v0, dtype=float)[1:], sc, rtol=1e-12)),
              lambda: 'std_crv on an array starting with 0: %r, element by element %r' % (np.asarray(v0)[:4], sc[:3].tolist()))
    # channel numbers are integers: the curve takes them as it takes floats (and leaves the caller's array alone)
    for dt in (np.int64, np.uint16):
        gi = np.array([1, 2, 10, 255, 1023], dtype=dt)
        keep = gi.copy()
        vi = call(std_crv, gi)
        vf = np.asarray(std_crv(gi.astype(float)), dtype=float)
        obs.claim('params_consistent', not raised(vi) and bool(np.allclose(np.asarray(vi, dtype=float), vf, rtol=1e-12)) and np.array_equal(gi, keep),
                  lambda: 'std_crv on an integer array (%s): %r, on the same values as floats %r' % (np.dtype(dt).name, vi, vf.tolist()))
    # a buffer that is refilled in place between two evaluations (the same array object, other numbers)
    buf = grid.copy()
    first = np.asarray(std_crv(buf), dtype=float)
    bfirst = np.asarray(beads_model(buf), dtype=float)
    buf *= 0.5
    second, bsecond = call(std_crv, buf), call(beads_model, buf)
    exp2 = np.exp(b_fit) * buf ** m_fit
    obs.claim('params_consistent', not raised(second) and bool(np.allclose(np.asarray(second, dtype=float), exp2, rtol=1e-9, atol=0))
              and bool(np.allclose(first, expect, rtol=1e-9, atol=0)),
              lambda: 'std_crv on an array that was halved in place since the last evaluation: %r, formula %r' % (np.asarray(second)[:3], exp2[:3].tolist()))
    obs.claim('model_identity', not raised(bsecond) and bool(np.allclose(np.asarray(bsecond, dtype=float), exp2 - auto_fit, rtol=1e-9, atol=1e-9 * max(1.0, auto_fit)))
              and bool(np.allclose(bfirst, expect - auto_fit, rtol=1e-9, atol=1e-9 * max(1.0, auto_fit))),
              'beads_model on an array that was halved in place since the last evaluation != std_crv - autofluorescence')
    # a whole sample's worth of events at once (more than 2**16 values, not a multiple of any round block size)
    if int(round(1e6 * abs(m_fit))) % 8 == 0:
        big = np.exp(np.linspace(math.log(min(rfi)) - 1.0, math.log(max(rfi)) + 1.0, 2 * 65536 + 4465))
        big[1::2] *= -1.0
        vb = call(std_crv, big)
        expb = np.sign(big) * np.exp(b_fit) * np.abs(big) ** m_fit
        obs.claim('params_consistent', not raised(vb) and np.asarray(vb).shape == big.shape and bool(np.allclose(np.asarray(vb, dtype=float), expb, rtol=1e-9, atol=0)),
                  lambda: 'std_crv on %d events differs from the formula at %d places (first at index %r)' % (
                      big.size, int(np.sum(~np.isclose(np.asarray(vb, dtype=float), expb, rtol=1e-9, atol=0))),
                      int(np.argmax(~np.isclose(np.asarray(vb, dtype=float), expb, rtol=1e-9, atol=0)))))
        obs.label('whole_sample_evaluated')
    return sc, grid


def check(case, obs):
    import FlowCal.mef
    arm = case['arm']
    obs.label('arm:' + arm)
    if arm == 'refuse':
        out = call(FlowCal.mef.fit_beads_autofluorescence, np.array(case['rfi']), np.array(case['mef']))
        obs.claim('refuse', raised(out), lambda: 'accepted %d rfi / %d mef values' % (len(case['rfi']), len(case['mef'])))
        obs.nontrivial = len(case['rfi']) != len(case['mef'])
        return
    if arm == 'recover':
        m, b, auto, mef = case['m'], case['b'], case['auto'], case['mef']
        rfi = [math.exp((math.log(v + auto) - b) / m) for v in mef]
        obs.nontrivial = (auto > 0 and mef[0] == 0.0) or not (0.95 <= m <= 1.05)
        obs.label('auto>0' if auto > 0 else 'auto=0', 'blank' if mef[0] == 0.0 else 'no_blank', 'n=%d' % len(mef))
    else:
        rfi, mef = case['rfi'], case['mef']
        obs.nontrivial = True
    container = case.get('container', 'float_array')
    obs.label('container:' + container)
    if container == 'int_array':
        mef_arg = np.array([int(v) for v in mef], dtype=np.int64)
    elif container == 'list':
        mef_arg = list(mef)
    else:
        mef_arg = np.array(mef)
    rfi_arg = list(rfi) if container == 'list' else np.array(rfi, dtype=np.float32 if container == 'f32_array' else np.float64)
    if container == 'readonly':
        rfi_arg.setflags(write=False)       # e.g. what pandas hands out for a column; the fit only reads its inputs
        mef_arg.setflags(write=False)
    out = call(FlowCal.mef.fit_beads_autofluorescence, rfi_arg, mef_arg)       # (statistics of a float32 sample are float32)
    if not obs.claim('fits', not raised(out), lambda: 'fit raised %r' % (out,)):
        return
    sc_before, grid0 = _structure(out, rfi, obs)
    bm_before = np.asarray(out[1](grid0), dtype=float)
    params_before = np.array(out[2], dtype=float)
    # what the caller does with its own arrays afterwards does not reach into the returned curve
    if isinstance(rfi_arg, np.ndarray) and rfi_arg.flags.writeable:
        rfi_arg *= 3.0
        rfi_arg[0] = 1.0
    # a later, unrelated fit must not change what an earlier fit returned
    call(FlowCal.mef.fit_beads_autofluorescence, np.array([3.0, 11.0, 47.0, 190.0, 800.0]),
         np.array([900.0, 5200.0, 41000.0, 250000.0, 1.9e6]))
    obs.claim('stable', bool(np.array_equal(np.asarray(out[0](grid0), dtype=float), sc_before))
              and bool(np.array_equal(np.asarray(out[1](grid0), dtype=float), bm_before))
              and bool(np.array_equal(np.asarray(out[2], dtype=float), params_before)),
              'the curve / model / parameters returned by a fit changed after another fit was made')
    if arm == 'recover':
        grid = np.exp(np.linspace(math.log(min(rfi)), math.log(max(rfi)), 80))
        got = np.asarray(out[0](grid), dtype=float)
        true = np.array([math.exp(b) * g ** m for g in grid])
        rel = float(np.max(np.abs(got / true - 1.0)))
        obs.claim('recover', rel <= 0.05,
                  lambda: 'm=%r b=%r auto=%r mef=%r: worst relative error %.4f, fitted %r' % (m, b, auto, mef, rel, list(out[2])))
