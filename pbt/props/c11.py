"""C11 -- in a batch, a failing row is reported in place and does not affect other rows."""
import itertools
import os
import shutil
import warnings

import numpy as np
import pandas as pd
from hypothesis import strategies as st

from pbt import xlgen
from pbt.runner import workdir, Obs
from pbt.samples import call, raised, fingerprint, fp_diff

ID = 'C11'
LEVEL = 'fault_enumeration'
ENGINES = ['exhaustive fault assignment (1-2 rows)', 'hypothesis (3-5 rows)']
RULE = ('A fixture experiment (two instruments; bead rows: healthy, failed, without values for one channel, on the '
        'other instrument) and a pool of files (healthy integer / float cells, <400 events, other detector voltage, '
        'linear amplifier, healthy beads, small beads). Sample-row kinds: healthy (integer MEF / integer RFI / float), '
        'file missing, <400 events, gate fraction -0.1 / 1.5, unknown units, calibration missing (beads row failed; '
        'channel without curve), beads from another instrument, other amplifier type, other detector voltage. '
        'EXHAUSTIVE over all kind assignments for tables of 1 and 2 sample rows (both orders) and of 1 and 2 bead '
        'rows (healthy, file missing, <400 events, gate fraction outside [0,1], unequal numbers of MEF values); '
        'Hypothesis draws tables of 3..5 rows with drawn kinds, orders and fixture seeds; the empty table. '
        'Non-trivial = >=2 rows with at least one faulty and one healthy.')
ASSUMPTIONS = ['only the row faults the property lists are injected',
               'healthy rows are compared (public fingerprint) with the same row processed in a one-row table',
               'bead rows are checked for row-level errors and notes only (their results depend on the shared random '
               'stream, and the statement compares cell-sample rows)']
BUDGET = {
    'quick': dict(examples=32, time_s=600, shrink=False),
    'thorough': dict(examples=2000, time_s=3300, shrink=True, shrink_cap_s=240),
}

SAMPLE_KINDS = ['ok_mef', 'ok_mef_wide', 'ok_rfi', 'ok_one', 'ok_400', 'ok_float', 'ok_float2', 'missing', 'missing_isdir', 'missing_notdir', 'missing_case', 'small', 'gf_neg', 'gf_big', 'gf_just_above', 'gf_just_below', 'bad_units', 'beads_failed',
                'no_curve', 'other_instrument', 'other_instrument_lc', 'other_amp', 'other_amp_novolt', 'other_volt', 'other_volt0', 'bad_units_sub']
HEALTHY = ('ok_mef', 'ok_mef_wide', 'ok_rfi', 'ok_one', 'ok_400', 'ok_float', 'ok_float2')
# further healthy rows whose *files* are unusual; they are paired with every healthy kind (both orders) in the quick
# tier and with every kind in the thorough tier
HEALTHY_EXTRA = ('ok_nofl2', 'ok_v31', 'ok_latin', 'ok_novolt')
SAMPLE_KINDS += list(HEALTHY_EXTRA)
HEALTHY += HEALTHY_EXTRA
BEAD_KINDS = ['ok', 'missing', 'missing_isdir', 'missing_case', 'small', 'gf_neg', 'gf_big', 'unequal_mef', 'unequal_mef_mid']

_FIX = {}


def fixture(seed):
    """Files + processed bead table, cached per process and seed."""
    import FlowCal.excel_ui as xl
    if seed in _FIX:
        return _FIX[seed]
    base = os.path.join(workdir(), 'c11_%d' % seed)
    shutil.rmtree(base, ignore_errors=True)
    os.makedirs(base)
    insts = [dict(id='I1', fsc='FSC-H', ssc='SSC-H', fl=['FL1-H', 'FL2-H', 'FL3-H'], time='Time'),
             dict(id='I2', fsc='FSC-A', ssc='SSC-A', fl=['FL1-H', 'FL2-H', 'FL3-H'], time='TIME')]
    files = {
        'cells_a.fcs': dict(kind='cells', instrument='I1', seed=seed + 1, n=600, datatype='I'),
        'cells_b.fcs': dict(kind='cells', instrument='I1', seed=seed + 2, n=520, datatype='I'),
        'cells_f.fcs': dict(kind='cells', instrument='I1', seed=2 * seed + 3, n=560, datatype='F'),
        'cells_f2.fcs': dict(kind='cells', instrument='I1', seed=4 * seed + 41, n=610, datatype='F'),   # bit 1 clear: non-positive FL2 values -> a warning note
        'cells_400.fcs': dict(kind='cells', instrument='I1', seed=seed + 13, n=400, datatype='I'),     # exactly the minimum
        'cells_small.fcs': dict(kind='cells', instrument='I1', seed=seed + 4, n=380, datatype='I'),
        'cells_volt.fcs': dict(kind='cells', instrument='I1', seed=seed + 5, n=500, datatype='I', volt=[500, 550, 999, 650, 700]),
        'cells_volt0.fcs': dict(kind='cells', instrument='I1', seed=seed + 11, n=500, datatype='I', volt=[500, 550, 0, 650, 700]),
        'cells_wide.fcs': dict(kind='cells', instrument='I1', seed=seed + 12, n=540, datatype='I', extra_first=True),
        'cells_nofl2.fcs': dict(kind='cells', instrument='I1', seed=seed + 14, n=530, datatype='I', drop_fl=1),   # FL2-H was not recorded
        'cells_v31.fcs': dict(kind='cells', instrument='I1', seed=seed + 15, n=510, datatype='I', version='FCS3.1'),
        'cells_latin.fcs': dict(kind='cells', instrument='I1', seed=seed + 16, n=505, datatype='I',
                                extra_kw=[['OPERATOR', 'Jos\xe9 N\xfa\xf1ez'], ['$SRC', '5 \xb5m beads-free medium']]),     # ISO-8859-1 text
        'cells_novolt.fcs': dict(kind='cells', instrument='I1', seed=seed + 17, n=515, datatype='I', no_volt=True),
        'cells_lin.fcs': dict(kind='cells', instrument='I1', seed=seed + 6, n=500, datatype='I', amp='lin'),
        'cells_lin_novolt.fcs': dict(kind='cells', instrument='I1', seed=seed + 18, n=500, datatype='I', amp='lin', no_volt=True),
        'cells_i2.fcs': dict(kind='cells', instrument='I2', seed=seed + 7, n=500, datatype='I'),
        'beads1.fcs': dict(kind='beads', instrument='I1', seed=seed + 8),
        'beads_small.fcs': dict(kind='beads', instrument='I1', seed=seed + 9, n_keep=390),
        'beads_i2.fcs': dict(kind='beads', instrument='I2', seed=seed + 10),
    }
    lad = ', '.join(str(v) for v in xlgen.LADDER)
    beads = [dict(id='B1', instrument='I1', file='beads1.fcs', gate_fraction=0.3, clustering=['FL1-H'], mef={'FL1-H': lad}),
             dict(id='B2', instrument='I1', file='nothere.fcs', gate_fraction=0.3, clustering=['FL1-H'], mef={'FL1-H': lad}),
             dict(id='B3', instrument='I2', file='beads_i2.fcs', gate_fraction=0.3, clustering=['FL1-H'], mef={'FL1-H': lad})]
    case = dict(instruments=insts, files=files, beads=beads, samples=[])
    it, bt, _ = xlgen.materialise(case, base)
    np.random.seed(seed)
    bs, fx, mo = xl.process_beads_table(bt, it, base_dir=base, full_output=True)
    xl.add_beads_stats(bt, bs, mo)
    _FIX[seed] = dict(base=base, it=it, bt=bt, fx=fx, bs=bs, single={}, single_row={})
    return _FIX[seed]


def sample_row(kind, sid):
    r = dict(id=sid, instrument='I1', beads='B1', file='cells_a.fcs', gate_fraction=0.5, units={'FL1-H': 'MEF', 'FL2-H': 'RFI'})
    if kind == 'ok_rfi':
        r.update(file='cells_b.fcs', units={'FL1-H': 'rfi', 'FL2-H': 'Channel'}, gate_fraction=0.85)
    elif kind == 'ok_400':
        r.update(file='cells_400.fcs', units={'FL1-H': 'RFI'}, beads=None, gate_fraction=0.9)
    elif kind == 'ok_one':
        # reports one channel only, of a file that has saturated events in the channel it does not report
        r.update(units={'FL2-H': 'RFI'}, beads=None)
    elif kind == 'ok_float':
        r.update(file='cells_f.fcs', units={'FL1-H': 'a.u.'}, beads=None)
    elif kind == 'ok_float2':
        r.update(file='cells_f2.fcs', units={'FL1-H': 'RFI', 'FL2-H': 'au'}, beads=None, gate_fraction=0.3)
    elif kind == 'missing':
        r.update(file='no_such_file.fcs')
    elif kind == 'missing_case':
        r.update(file='CELLS_A.FCS')                   # no such file: names are compared exactly (cells_a.fcs is another file)
    elif kind == 'missing_isdir':
        r.update(file='.')                             # the cell names a folder, not a file
    elif kind == 'missing_notdir':
        r.update(file='cells_a.fcs/cells_b.fcs')       # a path that runs through an existing file
    elif kind == 'small':
        r.update(file='cells_small.fcs')
    elif kind == 'gf_neg':
        r.update(gate_fraction=-0.1)
    elif kind == 'gf_big':
        r.update(gate_fraction=1.5)
    elif kind == 'gf_just_above':
        r.update(gate_fraction=1.000004)
    elif kind == 'gf_just_below':
        r.update(gate_fraction=-4e-9)
    elif kind == 'bad_units':
        r.update(units={'FL1-H': 'furlongs'})
    elif kind == 'beads_failed':
        r.update(beads='B2')
    elif kind == 'no_curve':
        r.update(units={'FL1-H': 'MEF', 'FL2-H': 'MEF'})
    elif kind == 'other_instrument':
        r.update(beads='B3')
    elif kind == 'other_instrument_lc':
        r.update(beads='B3', units={'FL1-H': ' mef ', 'FL2-H': 'rfi'})      # units may be spelled in any letter case
    elif kind == 'bad_units_sub':
        r.update(units={'FL1-H': 'Chan', 'FL2-H': 'F'})                      # fragments of the known unit names are no units
    elif kind == 'other_amp':
        r.update(file='cells_lin.fcs')
    elif kind == 'other_amp_novolt':
        r.update(file='cells_lin_novolt.fcs')     # another amplifier type than the beads file's, and no voltages recorded
    elif kind == 'other_volt':
        r.update(file='cells_volt.fcs')
    elif kind == 'other_volt0':
        r.update(file='cells_volt0.fcs')          # the calibrated channel's detector voltage is 0 (beads: 600)
    elif kind == 'ok_nofl2':
        r.update(file='cells_nofl2.fcs', units={'FL1-H': 'RFI'}, beads=None)        # the file lacks a channel the instrument lists
    elif kind == 'ok_v31':
        r.update(file='cells_v31.fcs', units={'FL1-H': 'MEF', 'FL2-H': 'a.u.'})      # an FCS3.1 file
    elif kind == 'ok_latin':
        r.update(file='cells_latin.fcs', units={'FL2-H': 'RFI'}, beads=None)         # keyword values with ISO-8859-1 characters
    elif kind == 'ok_novolt':
        r.update(file='cells_novolt.fcs')                                            # calibrated, the file records no voltages
    elif kind == 'ok_mef_wide':
        r.update(file='cells_wide.fcs', gate_fraction=0.6)   # same instrument and beads, but one more parameter in the file
    return r


def samples_table(kinds):
    rows = [sample_row(k, 'S%d' % (i + 1)) for i, k in enumerate(kinds)]
    cols = ['ID', 'Instrument ID', 'Beads ID', 'File Path', 'FL1-H Units', 'FL2-H Units', 'Gate Fraction', 'Strain']
    t = pd.DataFrame([dict([('ID', r['id']), ('Instrument ID', r['instrument']), ('Beads ID', r['beads']), ('File Path', r['file']),
                            ('FL1-H Units', r['units'].get('FL1-H')), ('FL2-H Units', r['units'].get('FL2-H')),
                            ('Gate Fraction', r['gate_fraction']), ('Strain', 'wt')]) for r in rows], columns=cols).set_index('ID')
    for c in ('FL1-H Units', 'FL2-H Units', 'Beads ID'):
        t[c] = t[c].astype(object).where(t[c].notnull(), None)
    return t


def _single(fx, kind):
    """The row processed alone (cached): fingerprint of its sample, or ('error', message) when it is refused."""
    import FlowCal.excel_ui as xl
    if kind not in fx['single']:
        with warnings.catch_warnings():
            warnings.simplefilter('ignore')
            one = xl.process_samples_table(samples_table([kind]), fx['it'], mef_transform_fxns=fx['fx'],
                                           beads_table=fx['bt'], base_dir=fx['base'])
        if isinstance(one['S1'], xl.ExcelUIException):
            fx['single'][kind] = ('error', str(one['S1']))
        else:
            fx['single'][kind] = fingerprint(one['S1'])
            t1 = samples_table([kind])
            xl.add_samples_stats(t1, one)
            fx['single_row'][kind] = {c: t1.loc['S1', c] for c in t1.columns}
    return fx['single'][kind]


def check_samples(kinds, seed, obs):
    import FlowCal.excel_ui as xl
    fx = fixture(seed)
    t = samples_table(kinds)
    # The rows over unusual files are not documented faults; whether the workflow processes or refuses such a row is
    # taken from its single-row run, and the table must treat it the same way (the statement compares with that run).
    HEALTHY = tuple(k for k in globals()['HEALTHY'] if k not in HEALTHY_EXTRA or not (k in kinds and isinstance(_single(fx, k), tuple)))
    refused_alone = {k: _single(fx, k)[1] for k in set(kinds) if k in HEALTHY_EXTRA and k not in HEALTHY}
    for k in refused_alone:
        obs.label('unusual_file_refused_alone:' + k)
    with warnings.catch_warnings():
        warnings.simplefilter('ignore')
        res = call(xl.process_samples_table, t, fx['it'], mef_transform_fxns=fx['fx'], beads_table=fx['bt'], base_dir=fx['base'])
    if not obs.claim('no_abort', not raised(res), lambda: 'table %r: the batch aborted with %r' % (kinds, res)):
        return
    ids = list(t.index)
    obs.claim('order', list(res.keys()) == ids, lambda: 'result keys %r for table index %r' % (list(res.keys()), ids))
    if not kinds:
        obs.claim('empty', len(res) == 0, 'empty table gave a non-empty result')
        return
    for sid, kind in zip(ids, kinds):
        got = res.get(sid)
        if kind in HEALTHY:
            if not obs.claim('healthy_equal', hasattr(got, 'channels'), lambda: 'table %r: healthy row %s (%s) gave %r' % (kinds, sid, kind, got)):
                continue
            ref1 = _single(fx, kind)
            if not obs.claim('healthy_equal', not isinstance(ref1, tuple), lambda: 'healthy row kind %s is refused when processed alone: %r' % (kind, ref1)):
                continue
            d = fp_diff(fingerprint(got), ref1)
            obs.claim('healthy_equal', not d, lambda: 'table %r: healthy row %s (%s) differs from its single-row run in %r' % (kinds, sid, kind, d))
        else:
            obs.claim('row_error', isinstance(got, xl.ExcelUIException),
                      lambda: 'table %r: faulty row %s (%s) gave %r instead of a row-level error' % (kinds, sid, kind, type(got)))
            if kind in refused_alone:
                obs.claim('healthy_equal', str(got) == refused_alone[kind],
                          lambda: 'table %r: row %s (%s) is refused with %r, alone with %r' % (kinds, sid, kind, str(got), refused_alone[kind]))
    # notes, statistics, histogram rows
    if len(kinds) % 2 == 0:
        # the table may already carry result columns (a previous output workbook used as input again)
        t['Analysis Notes'] = 'stale note'
        t['Number of Events'] = 12345
        for c_ in ('FL1-H Mean', 'FL1-H Median', 'FL2-H CV', 'FL1-H Geom. Mean'):
            t[c_] = 777.0
    with warnings.catch_warnings():
        warnings.simplefilter('ignore')
        r = call(xl.add_samples_stats, t, res)
        h = call(xl.generate_histograms_table, t, res) if not raised(r) else r
    if not obs.claim('no_abort', not raised(r) and not raised(h), lambda: 'table %r: statistics/histograms aborted with %r / %r' % (kinds, r, h)):
        return
    stat_cols = [c for c in t.columns if c.split(' ')[-1] in ('Mean', 'Median', 'Mode', 'Std', 'CV', 'IQR', 'RCV')]   # incl. Geom.
    hist_ids = set(i[0] for i in h.index)
    for sid, kind in zip(ids, kinds):
        note = t.loc[sid, 'Analysis Notes']
        if kind in HEALTHY:
            obs.claim('notes', not (isinstance(note, str) and note.startswith('ERROR:')) and t.loc[sid, 'Number of Events'] > 0,
                      lambda: 'healthy row %s has note %r' % (sid, note))
            obs.claim('hist_skips', sid in hist_ids, lambda: 'healthy row %s has no histogram rows' % sid)
            # its row of the output table is the row of its single-row run (notes and every result column)
            ref = fx['single_row'].get(kind)
            if ref is not None:
                bad = [c for c in ref if c in t.columns and not _same_cell(t.loc[sid, c], ref[c])]
                obs.claim('row_equal', not bad, lambda: 'table %r: output row of healthy row %s (%s) differs from its single-row run in %r: %r vs %r' % (
                    kinds, sid, kind, bad, [t.loc[sid, c] for c in bad[:3]], [ref[c] for c in bad[:3]]))
        else:
            obs.claim('notes', isinstance(note, str) and note.startswith('ERROR:') and pd.isnull(t.loc[sid, 'Number of Events'])
                      and all(pd.isnull(t.loc[sid, c]) for c in stat_cols),
                      lambda: 'faulty row %s (%s): note %r, events %r' % (sid, kind, note, t.loc[sid, 'Number of Events']))
            obs.claim('hist_skips', sid not in hist_ids, lambda: 'faulty row %s has histogram rows' % sid)
            obs.claim('notes', note == 'ERROR: %s' % (res[sid],),
                      lambda: 'faulty row %s (%s): note %r is not its own error message %r' % (sid, kind, note, 'ERROR: %s' % (res[sid],)))


def _same_cell(a, b):
    if isinstance(a, str) or isinstance(b, str) or a is None or b is None:
        return (a is None and b is None) or (isinstance(a, str) and isinstance(b, str) and a == b) or \
            (not isinstance(a, str) and not isinstance(b, str) and pd.isnull(a) and pd.isnull(b))
    try:
        if pd.isnull(a) and pd.isnull(b):
            return True
        return bool(a == b)
    except Exception:
        return False


def beads_table(kinds):
    lad = ', '.join(str(v) for v in xlgen.LADDER)
    rows = []
    for i, k in enumerate(kinds):
        r = {'ID': 'B%d' % (i + 1), 'Instrument ID': 'I1', 'File Path': 'beads1.fcs', 'FL1-H MEF Values': lad, 'FL2-H MEF Values': None,
             'FL3-H MEF Values': None, 'Gate Fraction': 0.3, 'Clustering Channels': 'FL1-H'}
        if k == 'missing':
            r['File Path'] = 'no_beads_here.fcs'
        elif k == 'missing_isdir':
            r['File Path'] = '.'
        elif k == 'missing_case':
            r['File Path'] = 'Beads1.FCS'
        elif k == 'unequal_mef_mid':
            # three calibrated channels; only the middle one has another number of values
            r['FL2-H MEF Values'] = ', '.join(lad.split(', ')[:-1])
            r['FL3-H MEF Values'] = lad
        elif k == 'small':
            r['File Path'] = 'beads_small.fcs'
        elif k == 'gf_neg':
            r['Gate Fraction'] = -0.1
        elif k == 'gf_big':
            r['Gate Fraction'] = 1.5
        elif k == 'unequal_mef':
            r['FL2-H MEF Values'] = '1, 2, 3'
        rows.append(r)
    t = pd.DataFrame(rows, columns=['ID', 'Instrument ID', 'File Path', 'FL1-H MEF Values', 'FL2-H MEF Values', 'FL3-H MEF Values',
                                    'Gate Fraction', 'Clustering Channels']).set_index('ID')
    for c_ in ('FL2-H MEF Values', 'FL3-H MEF Values'):
        t[c_] = t[c_].astype(object).where(t[c_].notnull(), None)
    return t


def check_beads(kinds, seed, obs):
    import FlowCal.excel_ui as xl
    fx = fixture(seed)
    t = beads_table(kinds)
    np.random.seed(seed)
    with warnings.catch_warnings():
        warnings.simplefilter('ignore')
        r = call(xl.process_beads_table, t, fx['it'], base_dir=fx['base'], full_output=True)
    if not obs.claim('no_abort', not raised(r), lambda: 'bead table %r: the batch aborted with %r' % (kinds, r)):
        return
    bs, fxs, mo = r
    ids = list(t.index)
    obs.claim('order', list(bs.keys()) == ids and list(fxs.keys()) == ids, 'bead result keys are not the table index in order')
    for bid, k in zip(ids, kinds):
        if k == 'ok':
            obs.claim('healthy_equal', hasattr(bs[bid], 'channels') and callable(fxs[bid]),
                      lambda: 'bead table %r: healthy row %s gave %r' % (kinds, bid, bs[bid]))
        else:
            obs.claim('row_error', isinstance(bs[bid], xl.ExcelUIException) and fxs[bid] is None,
                      lambda: 'bead table %r: faulty row %s (%s) gave %r' % (kinds, bid, k, type(bs[bid])))
    rr = call(xl.add_beads_stats, t, bs, mo)
    if obs.claim('no_abort', not raised(rr), lambda: 'add_beads_stats aborted with %r' % (rr,)):
        for bid, k in zip(ids, kinds):
            note = t.loc[bid, 'Analysis Notes']
            obs.claim('notes', (isinstance(note, str) and note.startswith('ERROR:')) == (k != 'ok'),
                      lambda: 'bead row %s (%s) has note %r' % (bid, k, note))


# ----------------------------------------------------------------------------------------------
# exhaustive over 1- and 2-row tables
# ----------------------------------------------------------------------------------------------

def exhaustive_jobs(tier):
    jobs = [('samples', [])]
    jobs += [('samples', [k]) for k in SAMPLE_KINDS]
    # every ordered pair that contains a healthy row, every faulty kind with itself, and (quick tier) a third of the
    # ordered pairs of two different faulty kinds; the thorough tier runs all of them
    faulty = [k for k in SAMPLE_KINDS if k not in HEALTHY]
    for ia, a in enumerate(SAMPLE_KINDS):
        for ib, b in enumerate(SAMPLE_KINDS):
            if tier != 'thorough' and (a in HEALTHY_EXTRA or b in HEALTHY_EXTRA):
                if a in HEALTHY and b in HEALTHY and a != b:
                    jobs.append(('samples', [a, b]))
                continue
            if a in HEALTHY or b in HEALTHY or a == b or tier == 'thorough' or (ia + 2 * ib) % 3 == 0:
                jobs.append(('samples', [a, b]))
    jobs += [('beads', [])] + [('beads', [k]) for k in BEAD_KINDS] + [('beads', [a, b]) for a in BEAD_KINDS for b in BEAD_KINDS]
    # group into chunks so that one process reuses its fixture
    chunks = [jobs[i::16] for i in range(16)]
    return [c for c in chunks if c]


def run_job(chunk):
    ev = nt = 0
    failures = []
    labels = {}
    claims = {}
    samples = []
    for arm, kinds in chunk:
        obs = Obs()
        try:
            (check_samples if arm == 'samples' else check_beads)(kinds, 7, obs)
        except Exception as e:
            obs.failures.append(('crash', '%s table %r: %s: %s' % (arm, kinds, type(e).__name__, e)))
        ev += 1
        healthy = [k for k in kinds if k in HEALTHY or k == 'ok']
        if len(kinds) >= 2 and healthy and len(healthy) < len(kinds):
            nt += 1
            if len(samples) < 1:
                samples.append(dict(arm=arm, kinds=kinds, seed=7))
        labels['%s_rows:%d' % (arm, len(kinds))] = labels.get('%s_rows:%d' % (arm, len(kinds)), 0) + 1
        for c, v in obs.claims.items():
            claims[c] = claims.get(c, 0) + v
        for tag, msg in obs.failures[:3]:
            failures.append((tag, msg, dict(arm=arm, kinds=kinds, seed=7)))
    return dict(evaluations=ev, nontrivial=nt, failures=failures[:20], labels=labels, claims=claims, samples=samples, complete=True)


# ----------------------------------------------------------------------------------------------
# Hypothesis: 3..5 rows
# ----------------------------------------------------------------------------------------------

@st.composite
def _case(draw):
    arm = draw(st.sampled_from(['samples', 'samples', 'samples', 'beads']))
    n = draw(st.sampled_from([3, 4, 5, 3]))
    if arm == 'samples':
        kinds = [draw(st.sampled_from(SAMPLE_KINDS)) for _ in range(n)]
        if not any(k in HEALTHY for k in kinds):
            kinds[draw(st.integers(0, n - 1))] = draw(st.sampled_from(list(HEALTHY)))
    else:
        kinds = [draw(st.sampled_from(BEAD_KINDS)) for _ in range(min(n, 3))]
    return dict(arm=arm, kinds=kinds, seed=draw(st.sampled_from([7, 11, 23])))


def strategy(tier):
    return _case()


def check(case, obs):
    kinds = case['kinds']
    obs.label('arm:' + case['arm'], 'rows:%d' % len(kinds), *['kind:' + k for k in kinds])
    healthy = [k for k in kinds if k in HEALTHY or k == 'ok']
    obs.nontrivial = len(kinds) >= 2 and bool(healthy) and len(healthy) < len(kinds)
    (check_samples if case['arm'] == 'samples' else check_beads)(kinds, case['seed'], obs)
