"""C20 -- a sample survives copying, viewing and pickling in any analysis state."""
import copy
import os
import pickle

import numpy as np
from hypothesis import strategies as st

from pbt import fcsgen
from pbt.runner import workdir
from pbt.samples import call, raised, build, sample_spec, fingerprint, fp_diff, to_fcs_spec

ID = 'C20'
LEVEL = 'exploration'
ENGINES = ['hypothesis', 'curated large files']
RULE = ('Hypothesis draws a sample (1..5 channels, integer big/little-endian 8/16/32 bit or float32/64, with '
        '$BTIM/$ETIM/$DATE/$TIMESTEP, voltages, gains, labels), a history of 0..3 operations from {slice channels '
        '(names/positions, reordered), slice events (slice / boolean mask), to_rfi on a subset, to_mef on a '
        'subset, start_end / high_low gate}, then one duplication from {copy(), copy.copy, copy.deepcopy, view(), '
        'pickle protocol 0..5}; a second arm loads one path twice, rewrites it with one event or one keyword '
        'changed and loads it again.  Non-trivial = history with a channel reorder or a unit conversion, '
        'duplicated by pickle or deepcopy.')
ASSUMPTIONS = ['equality is judged on the public fingerprint (values, dtype kind and width, every accessor), not on '
               '__dict__; byte order is not part of "numeric kind and width"',
               'independence is probed by changing a data cell, a stored range entry (through the list range() hands '
               'out) and a text entry on one side and re-reading the other']
BUDGET = {
    'quick': dict(examples=4000, time_s=300),
    'thorough': dict(examples=80000, time_s=2400, fuzz=dict(workers=8, runs=6000, max_s=300)),
}

OPS = ['cols', 'cols', 'cols', 'rows', 'to_rfi', 'to_mef', 'start_end', 'high_low', 'one_event', 'one_channel', 'read_time', 'no_channels']
DUPS = ['copy', 'copy.copy', 'deepcopy', 'view'] + ['pickle%d' % p for p in range(6)]


@st.composite
def _op(draw):
    kind = draw(st.sampled_from(OPS))
    return dict(op=kind, pick=draw(st.lists(st.integers(0, 9), min_size=1, max_size=4)),
                by_name=draw(st.booleans()), a=draw(st.integers(0, 5)), b=draw(st.integers(0, 5)),
                mask_seed=draw(st.integers(0, 999)), use_mask=draw(st.booleans()),
                repeat=draw(st.sampled_from([False, False, True])))


@st.composite
def _case(draw):
    if draw(st.integers(0, 5)) == 0:
        spec = draw(sample_spec(min_d=1, max_d=3, min_n=1, max_n=8))
        return dict(arm='file', spec=spec, change=draw(st.sampled_from(['event', 'keyword', 'new_keyword', 'analysis'])),
                    row=draw(st.integers(0, 7)), col=draw(st.integers(0, 2)))
    spec = draw(sample_spec(min_d=1, max_d=5, min_n=0, max_n=25, with_time=True))
    if draw(st.booleans()) and 'Time' not in spec['names']:
        spec['names'][-1] = 'Time'             # (half of the samples have a time channel)
    every = draw(st.booleans())                # all acquisition keywords together, or each on its own coin
    spec['extra'] = [[k, v] for k, v in (('$BTIM', '12:30:05'), ('$ETIM', '12:31:45.50'), ('$DATE', '05-MAR-2021'),
                                          ('$TIMESTEP', '0.01' if spec['data_seed'] % 3 else '0'), ('CUSTOM', 'x/y'))
                     if every or draw(st.booleans())]
    if draw(st.booleans()):
        spec['analysis'] = [['GATE1', '0.5']]
    spec['path_form'] = draw(st.sampled_from([None, None, None, 'dslash', 'dot', 'updown']))   # how the file was named
    return dict(arm='history', spec=spec, ops=draw(st.lists(_op(), max_size=3)), dup=draw(st.sampled_from(DUPS)),
                mutate=draw(st.sampled_from(['dup', 'orig'])), early=draw(st.sampled_from([False, False, True])))


def strategy(tier):
    return _case()


def apply_op(d, op):
    import FlowCal.transform as tr
    import FlowCal.gate as gate
    if d.ndim != 2:
        return d, 'skipped'
    N, D = d.shape
    if D == 0 and op['op'] not in ('rows', 'start_end', 'no_channels', 'read_time'):
        return d, 'skipped'                    # (nothing to pick a channel from)
    names = list(d.channels)
    cols = []
    for p in (op['pick'] if D else []):
        if p % D not in cols or (op['op'] == 'cols' and op.get('repeat')):
            cols.append(p % D)
    chs = [names[j] if op['by_name'] else j for j in cols]
    k = op['op']
    if op['b'] % 2 == 0:
        call(lambda: d.acquisition_time)       # reading a derived quantity in between changes nothing
    if k == 'cols':
        return d[:, chs], 'cols_reordered' if cols != sorted(cols) else 'cols'
    if k == 'one_event':
        # a single event taken with an integer index: one-dimensional, still all channels
        return (d[op['a'] % N], 'one_event') if N else (d, 'skipped')
    if k == 'read_time':
        # reading a derived quantity is no change of state (but what follows must not depend on it having been read)
        call(lambda: d.acquisition_time)
        return d, 'read_time'
    if k == 'no_channels':
        # a selection that keeps no channel is still a sample (N x 0)
        return (d[:, []] if op['by_name'] else d[:, 0:0]), 'no_channels'
    if k == 'one_channel':
        return d[:, chs[0]], 'one_channel'          # a single channel: one-dimensional, one channel
    if k == 'rows':
        if op['use_mask']:
            m = np.random.Generator(np.random.PCG64(op['mask_seed'])).random(N) < 0.6
            return d[m], 'rows_mask'
        return d[op['a']:max(op['a'], N - op['b'])], 'rows_slice'
    if k == 'to_rfi':
        return tr.to_rfi(d, chs), 'to_rfi'
    if k == 'to_mef':
        curves = [(lambda x, c=1.5 + j, p=1.0 + 0.05 * j: c * np.sign(x) * np.abs(x) ** p) for j in cols]
        return tr.to_mef(d, chs, curves, chs), 'to_mef'
    if k == 'start_end':
        if N < op['a'] + op['b']:
            return d, 'skipped'
        return gate.start_end(d, num_start=op['a'], num_end=op['b']), 'start_end'
    return gate.high_low(d, channels=chs), 'high_low'


def duplicate(d, how):
    if how == 'copy':
        return d.copy()
    if how == 'copy.copy':
        return copy.copy(d)
    if how == 'deepcopy':
        return copy.deepcopy(d)
    if how == 'view':
        return d.view()
    return pickle.loads(pickle.dumps(d, protocol=int(how[-1])))


def exhaustive_jobs(tier):
    # files whose DATA segment is larger than 1 MiB, differing in one event at the very end / start / middle
    return [dict(arm='bigfile', where=w) for w in ('last', 'first', 'middle')]


def run_job(job):
    from pbt.runner import Obs
    obs = Obs()
    try:
        check(job, obs)
    except Exception as e:
        obs.failures.append(('crash', 'big file: %s: %s' % (type(e).__name__, e)))
    return dict(evaluations=1, nontrivial=1, failures=[(t, m, job) for t, m in obs.failures[:5]],
                labels={'curated:big_file': 1}, claims=dict(obs.claims), samples=[], complete=True)


def _check_bigfile(case, obs):
    import FlowCal.io
    n, D = 140000, 4
    rng = np.random.Generator(np.random.PCG64(11))
    ev = rng.integers(0, 65536, size=(n, D)).tolist()
    spec = dict(version='FCS3.0', datatype='I', byteord='1,2,3,4', widths=[16] * D, ranges=[65536] * D, events=ev,
                names=['FSC-H', 'SSC-H', 'FL1-H', 'FL2-H'])
    path = os.path.join(workdir(), 'c20big.fcs')
    fcsgen.write(path, spec)
    f1 = FlowCal.io.FCSFile(path)
    f2 = FlowCal.io.FCSFile(path)
    obs.claim('file_eq', (f1 == f2) is True and (f1 != f2) is False, 'two loads of the same large file compare unequal')
    r = dict(last=n - 1, first=0, middle=n // 2 + 7)[case['where']]
    ev[r][D - 1] ^= 1
    fcsgen.write(path, dict(spec, events=ev))
    f3 = FlowCal.io.FCSFile(path)
    obs.nontrivial = True
    obs.claim('file_ne', (f1 == f3) is False and (f1 != f3) is True,
              lambda: 'loads of large files (%d events) differing in event %d compare equal' % (n, r))


def check(case, obs):
    import FlowCal.io
    obs.label('arm:' + case['arm'])
    if case['arm'] == 'bigfile':
        return _check_bigfile(case, obs)
    if case['arm'] == 'file':
        spec = to_fcs_spec(case['spec'])
        # same-length variants, so that HEADER offsets and every other byte stay identical
        spec['extra'] = list(spec.get('extra') or []) + [['NOTE', 'aaa']]
        spec['analysis'] = [['AKEY', 'aval']]
        path = os.path.join(workdir(), 'c20f.fcs')
        fcsgen.write(path, spec)
        f1 = FlowCal.io.FCSFile(path)
        f2 = FlowCal.io.FCSFile(path[:1] + path[1:])           # the same name, typed again (an equal but distinct string)
        obs.claim('file_eq', (f1 == f2) is True and (f1 != f2) is False and hash(f1) == hash(f2),
                  'two loads of the same file compare unequal or hash differently')
        obs.claim('file_eq', (f1 == 'x') is False and (f1 != 'x') is True, 'comparison with another type')
        s2 = dict(spec)
        ch = case['change']
        N, D = len(spec['events']), len(spec['widths'])
        if ch == 'event':
            r, c = case['row'] % N, case['col'] % D
            ev = [list(row) for row in spec['events']]
            ev[r][c] = ev[r][c] ^ 1          # flip the lowest bit (stays within range: ranges are even)
            s2['events'] = ev
        elif ch in ('keyword', 'new_keyword'):
            # another value of the same length: another letter, or the same letters with the blank elsewhere
            spec['extra'] = spec['extra'][:-1] + [['NOTE', 'aa ']]
            fcsgen.write(path, spec)
            f1 = FlowCal.io.FCSFile(path)
            f2 = FlowCal.io.FCSFile(path[:1] + path[1:])
            s2 = dict(spec)
            s2['extra'] = spec['extra'][:-1] + [['NOTE', 'aab' if case['row'] % 2 else ' aa']]
        else:
            s2['analysis'] = [['AKEY', 'bval']]
        obs.label('change:' + ch)
        fcsgen.write(path, s2)
        f3 = FlowCal.io.FCSFile(path)
        obs.nontrivial = True
        obs.claim('file_ne', (f1 == f3) is False and (f1 != f3) is True,
                  lambda: 'loads of files differing in %s compare equal' % ch)
        # what two loads hold does not change when the file goes away afterwards
        os.remove(path)
        obs.claim('file_eq', (f1 == f2) is True and (f1 != f2) is False, 'two loads of the same file compare unequal once the file was removed')
        obs.claim('file_ne', (f1 == f3) is False, 'loads of different files compare equal once the file was removed')
        return

    d = build(case['spec'])
    kinds = []
    for op in case['ops']:
        d2 = call(apply_op, d, op)
        if raised(d2):
            obs.fail('history', 'operation %r raised %r' % (op['op'], d2))
            return
        d, kind = d2
        kinds.append(kind)
    how = case['dup']
    obs.label('dup:' + (how if not how.startswith('pickle') else 'pickle'), *['op:' + k for k in kinds])
    obs.nontrivial = (any(k in ('cols_reordered', 'to_rfi', 'to_mef') for k in kinds)
                      and (how.startswith('pickle') or how == 'deepcopy'))
    if not hasattr(d, 'channels'):
        return
    before = fingerprint(d)
    dup = call(duplicate, d, how)
    if not obs.claim('duplicates', not raised(dup), lambda: '%s raised %r' % (how, dup)):
        return
    obs.claim('type', type(dup) is type(d), lambda: '%s returned %r' % (how, type(dup)))
    if case.get('early'):
        # the original is changed right after the duplicate was made, before anything was read from the duplicate
        obs.label('changed_before_first_read')
        d.text['VERIF'] = 'changed'
        for k in list(d.text)[:1]:
            d.text[k] = d.text[k] + '!'
        d.analysis['VERIF'] = '1'
        rl = d.range()
        if rl and rl[0] is not None:
            rl[0][0] = -12345.0
        fd = call(fingerprint, dup)
        obs.claim('independent', not raised(fd) and not fp_diff(before, fd),
                  lambda: '%s after %r: a change made to the original right after duplicating shows in the duplicate: %r' % (
                      how, kinds, fd if raised(fd) else fp_diff(before, fd)))
        return
    fd = call(fingerprint, dup)
    if not obs.claim('equal', not raised(fd) and not fp_diff(before, fd),
                     lambda: '%s after %r: duplicate differs in %r' % (how, kinds, fd if raised(fd) else fp_diff(before, fd))):
        return
    obs.claim('equal', not fp_diff(before, fingerprint(d)), 'duplicating changed the original')
    at0 = call(lambda: d.acquisition_time)
    at1 = call(lambda: dup.acquisition_time)
    obs.claim('equal', (raised(at0) and raised(at1)) or (not raised(at0) and not raised(at1) and (at0 == at1 or (at0 != at0 and at1 != at1))),      # (nan: a time channel that holds nan)
              lambda: 'acquisition_time %r vs %r' % (at0, at1))
    # ---- independence: change one side, re-read the other
    a, b = (dup, d) if case['mutate'] == 'dup' else (d, dup)
    ref = fingerprint(b)
    a.text['VERIF'] = 'changed'
    for k in list(a.text)[:1]:
        a.text[k] = a.text[k] + '!'
    a.analysis['VERIF'] = '1'
    rl = a.range()
    if rl and rl[0] is not None:
        rl[0][0] = -12345.0
        rl[0][1] = 54321.0
    now = fingerprint(b)
    obs.claim('independent', not fp_diff(ref, now),
              lambda: 'changing text/analysis/range of the %s changed the other side: %r' % (case['mutate'], fp_diff(ref, now)))
    if a.size and how != 'view':
        a[(0,) * a.ndim] = 77
        now = fingerprint(b)
        obs.claim('independent', not fp_diff(ref, now),
                  lambda: 'writing a cell of the %s changed the other side (%s)' % (case['mutate'], how))
