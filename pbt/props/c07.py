"""C07 -- ranges follow the data through unit changes, so saturation gating commutes."""
import math

import numpy as np
from hypothesis import strategies as st

from pbt.samples import derived_from_used_parent, call, raised, build, sample_spec

ID = 'C07'
LEVEL = 'exploration'
RULE = ('Hypothesis draws an integer sample (1..5 channels, resolutions 256..262144 or arbitrary, >=8 events) '
        'whose channels hold events equal to 0, 1, R-2 and R-1 at drawn rows, amplifier settings with '
        'full-mantissa floats (a0 in (0,8], a1 in {1, 0.1, continuous}, linear gains continuous), standard-curve '
        'parameters m in [0.85,1.25], b in [0,7], a channel subset, and a route: to_rfi, to_rfi then to_mef '
        '(curve of the form fit_beads_autofluorescence returns), or transform.transform with a ufunc-based '
        'function.  Non-trivial = a log-amplified or MEF-converted channel with at least one event at each '
        'limit.')
ASSUMPTIONS = ['bitwise agreement of two floating-point evaluation paths is a property of the code AND of the '
               'numpy build / CPU (SIMD pow); the check decides it for the machine it runs on (see numpy_simd)',
               'default high_low thresholds are the channel ranges (C08)']
BUDGET = {
    'quick': dict(examples=4800, time_s=300),
    'thorough': dict(examples=300000, time_s=2400, fuzz=dict(workers=8, runs=6000, max_s=300)),
}


@st.composite
def _case(draw):
    spec = draw(sample_spec(min_d=1, max_d=5, min_n=8, max_n=40, datatypes=('I',), log_amp=False, int_widths=(16, 32)))
    D = len(spec['widths'])
    n = spec['n']
    for j in range(D):
        if draw(st.booleans()):
            spec['ranges'][j] = min(draw(st.one_of(st.integers(4, 5000), st.sampled_from([256, 1024, 4096]))), 2 ** spec['widths'][j])
    pne = []
    for j in range(D):
        if draw(st.sampled_from([True, True, False])):
            a0 = draw(st.one_of(st.floats(0.01, 8.0), st.sampled_from([1.0, 2.0, 4.0, 4.5, 5.0])))
            a1 = draw(st.one_of(st.sampled_from([1.0, 0.1, 0.0]), st.floats(0.01, 10.0)))
            # the non-standard zero offset may be written in any spelling of zero
            a1s = draw(st.sampled_from(['0.0', '0', '0.000000', '0.00', '0e0'])) if a1 == 0.0 else repr(a1)
            pne.append('%r,%s' % (a0, a1s))
        else:
            pne.append('0,0')
    spec['pne'] = pne
    spec['png'] = [draw(st.one_of(st.none(), st.floats(0.1, 50.0).map(repr))) for _ in range(D)]
    rows = [int(i) for i in np.random.Generator(np.random.PCG64(draw(st.integers(0, 2 ** 16)))).permutation(n)]   # a drawn seed decides the rows
    specials = []
    at_limits = {}
    for j in range(D):
        R = spec['ranges'][j]
        vals = [0, 1, R - 2, R - 1]
        for i, v in enumerate(vals):
            r = rows[(4 * j + i) % n]
            specials.append([r, j, max(0, min(R - 1, v))])
    spec['specials'] = specials
    sel = draw(st.lists(st.integers(0, D - 1), min_size=1, max_size=D, unique=True))
    route = draw(st.sampled_from(['rfi', 'rfi', 'rfi_mef', 'rfi_mef', 'transform']))
    form = 'list'
    lin = [j for j in sel if pne[j] == '0,0']
    if lin and route in ('rfi', 'rfi_mef') and draw(st.integers(0, 4)) == 0:
        # a linear channel named twice (e.g. scatter + fluorescence lists that overlap).  Whatever a conversion does with
        # the repetition, limits and events must stay in step.  (Not drawn for log amplifiers -- applying 10^x twice
        # overflows -- nor for the generic transform, which the statement does not cover.)
        sel = sel + [draw(st.sampled_from(lin))]
    if len(sel) == 1 and draw(st.booleans()):
        form = 'scalar'                       # one channel given bare: 0, -1, 'FSC-H'
    elif draw(st.integers(0, 24)) == 0:
        sel, form = [], 'empty'               # nothing requested: nothing may change
    return dict(form=form, override=draw(st.sampled_from([None, None, None, 'py', 'f32', 'f64'])), spec=spec, sel=sel, spell=[draw(st.sampled_from(['name', 'pos', 'neg', 'name', 'pos'])) for _ in sel], route=route,
                m=[draw(st.floats(0.85, 1.25)) for _ in sel], b=[draw(st.floats(0.0, 7.0)) for _ in sel],
                fxn=draw(st.sampled_from(['sqrt', 'pow', 'exp', 'log1p'])), p=draw(st.floats(0.5, 2.0)),
                gate_channels=draw(st.sampled_from(['all', 'selected'])), derived=draw(st.sampled_from([None, None, None, ['slice', 1], ['slice', 2], ['list', 1], ['perm', 1], ['permname', 2]])))


def strategy(tier):
    return _case()


# samples with more events than any generated one: just beyond 2**16, and an exact multiple of 100000 (sizes at which
# event-block-wise processing has its seams), two or three channels with different amplifier settings in one call
def curated():
    out = []
    for n, route in ((70001, 'rfi'), (100000, 'rfi_mef'), (200000, 'rfi_mef'), (65537, 'transform')):
        spec = dict(version='FCS3.0', datatype='I', byteord='1,2,3,4', widths=[16, 16, 16], ranges=[1024, 1024, 4096],
                    names=['FSC-H', 'FL1-H', 'FL2-H'], pne=['0,0', '4.0,1.0', '4.5,0.1'], png=['2.5', None, None], pnv=[None] * 3, pns=[None] * 3,
                    n=n, data_seed=n % 97)
        specials = []
        for j, R in enumerate(spec['ranges']):
            for i, v in enumerate([0, 1, R - 2, R - 1]):
                specials.append([(n - 1 - 4 * j - i) if i % 2 else (4 * j + i), j, v])       # limits sit in the first and in the last rows
        spec['specials'] = specials
        out.append(dict(form='list', override=None, spec=spec, sel=[0, 1, 2], spell=['name', 'pos', 'neg'], route=route,
                        m=[1.1, 0.9, 1.0], b=[2.0, 3.0, 1.0], fxn='sqrt', p=1.0, gate_channels='all', derived=None))
    return out


def exhaustive_jobs(tier):
    return curated()


def run_job(job):
    from pbt.runner import Obs
    obs = Obs()
    try:
        check(job, obs)
    except Exception as e:
        obs.failures.append(('crash', 'curated large sample: %s: %s' % (type(e).__name__, e)))
    return dict(evaluations=1, nontrivial=1, failures=[(t, m, job) for t, m in obs.failures[:5]],
                labels={'curated:%d_events' % job['spec']['n']: 1}, claims=dict(obs.claims), samples=[], complete=True)


def evidence_extra(tier):
    try:
        from numpy._core._multiarray_umath import __cpu_features__ as f
        return dict(numpy_simd=sorted(k for k, v in f.items() if v))
    except Exception:
        return dict(numpy_simd='unknown')


def _std_crv(m, b):
    # exactly the form FlowCal.mef.fit_beads_autofluorescence returns
    p = np.array([m, b, 0.0])
    return lambda x: np.sign(x) * np.exp(p[1]) * (np.abs(x) ** p[0])


def check(case, obs):
    import FlowCal.transform as tr
    import FlowCal.gate as gate
    spec = case['spec']
    D = len(spec['widths'])
    d = build(spec) if not case.get('derived') else derived_from_used_parent(spec, case['derived'][1], case['derived'][0])
    names = list(d.channels)
    sel = case['sel']
    from pbt.props.c03 import _spell
    chs = [_spell(j, sp, names, False) for j, sp in zip(sel, case['spell'])]
    route = case['route']
    curves = [_std_crv(m, b) for m, b in zip(case['m'], case['b'])][:len(sel)]
    if route == 'transform':
        R0 = float(max([spec['ranges'][j] for j in sel] or [1]))   # keeps exp finite and strictly increasing
        fx = dict(sqrt=np.sqrt, pow=lambda x: np.power(x, case['p']), exp=lambda x: np.exp(np.asarray(x) / R0),
                  log1p=np.log1p)[case['fxn']]

    form = case.get('form', 'list')
    ch_arg = chs[0] if form == 'scalar' else chs
    obs.label('form:' + form)
    kw = {}
    if case.get('override') and form != 'empty':
        # the recorded settings handed over by the caller, as Python floats or NumPy scalars of either width
        cast = dict(py=float, f32=np.float32, f64=np.float64)[case['override']]
        at, ag = [], []
        for j in sel:
            a0, a1 = [float(v) for v in spec['pne'][j].split(',')]
            if a0 != 0 and a1 == 0:
                a1 = 1.0          # what the reader makes of the non-standard zero offset (a literal 0 would map all to 0)
            at.append((cast(a0), cast(a1)))
            ag.append(cast(float(spec['png'][j])) if spec['png'][j] is not None else None)
        kw = dict(amplification_type=at[0] if form == 'scalar' else at, amplifier_gain=ag[0] if form == 'scalar' else ag)
        obs.label('override:' + case['override'])

    def convert(s):
        if route == 'rfi':
            return tr.to_rfi(s, ch_arg, **kw)
        if route == 'rfi_mef':
            return tr.to_mef(tr.to_rfi(s, ch_arg, **kw), ch_arg, curves, chs)
        return tr.transform(s, ch_arg, fx)

    t = call(convert, d)
    if not obs.claim('returns', not raised(t), lambda: 'conversion raised %r' % (t,)):
        return
    raw = np.asarray(d)
    tv = np.asarray(t)
    from pbt.samples import fingerprint as _fp, fp_diff as _fpd
    moved = [f for f in _fpd(_fp(d), _fp(t)) if f not in ('data', 'range', 'kind', 'itemsize')]
    obs.claim('unconverted', not moved, lambda: 'the conversion changed more than events and limits: %r' % moved)
    log_or_mef = False
    both = False
    for j in range(D):
        R = spec['ranges'][j]
        lo_rows = np.flatnonzero(raw[:, j] == 0)
        hi_rows = np.flatnonzero(raw[:, j] == R - 1)
        rng_before = list(d.range(j))
        rng_after = list(t.range(j))
        if j in sel:
            is_log = float(spec['pne'][j].split(',')[0]) != 0
            if (is_log and route != 'transform') or route in ('rfi_mef', 'transform'):
                log_or_mef = True
                both = both or (len(lo_rows) > 0 and len(hi_rows) > 0)
            for rows, side, nm in ((lo_rows, 0, 'lower'), (hi_rows, 1, 'upper')):
                for r in rows[:2]:
                    obs.claim('limits_exact', float(rng_after[side]) == float(tv[r, j]),
                              lambda: 'channel %d (%s, $PnE=%s, route %s): %s limit %r but an event at the limit is now %r' % (
                                  j, names[j], spec['pne'][j], route, nm, float(rng_after[side]), float(tv[r, j])))
        else:
            obs.claim('unconverted', [float(v) for v in rng_after] == [float(v) for v in rng_before],
                      lambda: 'limits of unconverted channel %d changed: %r -> %r' % (j, rng_before, rng_after))
    obs.nontrivial = log_or_mef and both
    obs.label('route:' + route, 'log_or_mef' if log_or_mef else 'linear_only')
    # gating before or after the conversion keeps the same events
    gch = None if (case['gate_channels'] == 'all' or not chs) else chs
    g_after = call(gate.high_low, t, channels=gch, full_output=True)
    g_before = call(gate.high_low, d, channels=gch, full_output=True)
    if not obs.claim('commute', not raised(g_after) and not raised(g_before), lambda: 'high_low raised %r %r' % (g_after, g_before)):
        return
    ma, mb = np.asarray(g_after.mask), np.asarray(g_before.mask)
    obs.claim('commute', bool(np.array_equal(ma, mb)),
              lambda: 'gate-then-convert keeps %d events, convert-then-gate keeps %d (rows %r differ)' % (
                  int(mb.sum()), int(ma.sum()), np.flatnonzero(ma != mb)[:5].tolist()))
    t2 = call(convert, g_before.gated_data)
    obs.claim('commute', not raised(t2) and np.array_equal(np.asarray(t2), np.asarray(g_after.gated_data)),
              'convert(gate(s)) != gate(convert(s))')
    # the same source object can be converted again, and gated, with the same answers (a conversion must not
    # leave anything behind in its source that changes later answers)
    t_again = call(convert, d)
    obs.claim('repeat', not raised(t_again) and np.array_equal(np.asarray(t_again), tv)
              and [[float(v) for v in r] for r in t_again.range()] == [[float(v) for v in r] for r in t.range()],
              'converting the same sample a second time gives other values or limits')
    if route == 'rfi_mef':
        r1 = tr.to_rfi(d, chs)
        m1 = call(tr.to_mef, r1, chs, curves, chs)
        gb = call(gate.high_low, r1, channels=gch, full_output=True)      # r1 used again after to_mef(r1)
        ga = call(gate.high_low, m1, channels=gch, full_output=True)
        ok = not raised(m1) and not raised(gb) and not raised(ga)
        obs.claim('commute', ok and np.array_equal(np.asarray(gb.mask), np.asarray(ga.mask)),
                  'MEF step: gating the RFI sample (after it was used as a to_mef source) and gating its MEF '
                  'conversion keep different events')
        m2 = call(tr.to_mef, r1, chs, curves, chs)
        obs.claim('repeat', ok and not raised(m2) and np.array_equal(np.asarray(m2), np.asarray(m1))
                  and [[float(v) for v in r] for r in m2.range()] == [[float(v) for v in r] for r in m1.range()],
                  'to_mef of the same RFI sample a second time gives other limits')
    # sanity of the construction: the generated sample does contain saturated events
    obs.claim('saturated_present', int((~mb).sum()) >= 1, 'generator did not place saturated events')
