"""C03 -- RFI conversion applies exactly the amplifier law of each selected channel."""
import numpy as np
from hypothesis import strategies as st

from pbt.samples import derived_from_used_parent, call, raised, build, sample_spec, expand, fingerprint, fp_diff

ID = 'C03'
LEVEL = 'exploration'
RULE = ('Hypothesis draws a sample (1..6 channels, integer or float data, per-channel $PnE = a0,a1 with a0 in '
        '{0, 1..8, fractional}, a1 in {0 (non-standard), 0.1, 1, 10, continuous}, $PnR in {256..262144, '
        'arbitrary}, $PnG absent or positive) or the equivalent plain array; a duplicate-free channel request '
        '(subset, order, name/position spelling, scalar / list / None form); for each of the three settings '
        'independently file value or override; plus an error arm (wrong lengths, scalar where a list is needed, '
        'array without amplification type).  Non-trivial = >=2 selected channels mixing log and linear, or any '
        'override, or fractional a0.')
ASSUMPTIONS = ['reference amplifier law evaluated in Python floats; relative tolerance 1e-12 (two float evaluation '
               'orders of one formula)',
               'overrides keep a0*x/r small so every result is finite (a request that overflows float64 is not in '
               'the domain of the statement)',
               'range limits are not asserted here (C07 owns them); only their equality between equivalent calls']
BUDGET = {
    'quick': dict(examples=2400, time_s=300),
    'thorough': dict(examples=100000, time_s=1800, fuzz=dict(workers=8, runs=6000, max_s=300)),
}

A0 = st.one_of(st.sampled_from([0.0, 0.0, 1.0, 2.0, 3.0, 4.0, 4.5, 5.0, 8.0]), st.floats(0.1, 8.0))
A1 = st.one_of(st.sampled_from([0.0, 0.1, 1.0, 10.0]), st.floats(0.01, 10.0))
GAIN = st.one_of(st.sampled_from([1.0, 2.0, 0.5, 16.0]), st.floats(0.1, 50.0))


@st.composite
def base_sample(draw, max_d=6, max_n=40):
    many = max_d >= 6 and draw(st.integers(0, 7)) == 0          # ten or more parameters: two-digit keyword numbers
    spec = draw(sample_spec(min_d=10 if many else 1, max_d=12 if many else max_d, min_n=1, max_n=max_n, datatypes=('I', 'I', 'F'), log_amp=False,
                            int_widths=(16, 32), with_time=True,          # a channel may be called 'Time': still a channel
                            resolutions=(256, 1024, 4096, 65536, 262144, 65535, 1023, 4095, 1000)))     # ($PnR need not be a power of two)
    D = len(spec['widths'])
    if draw(st.sampled_from([True, False, False, False])):
        # acquisition software for which some readers know vendor keywords; the standard settings stay what they are
        spec['extra'] = [['CREATOR', draw(st.sampled_from(['FlowJoCollectorsEdition 7.5.110.7', 'CellQuest Pro 5.2.1']))]]
    if draw(st.booleans()):
        for j in range(D):
            spec['ranges'][j] = draw(st.one_of(st.integers(2, 5000), st.sampled_from([256, 1024, 65536])))
            if spec['datatype'] == 'I':
                spec['ranges'][j] = min(spec['ranges'][j], 2 ** spec['widths'][j])
    pne, a0s, a1s = [], [], []
    for j in range(D):
        a0 = draw(A0)
        a1 = draw(A1) if a0 != 0 else 0.0
        a0s.append(a0)
        a1s.append(a1)
        pne.append('%r,%r' % (a0, a1))
    spec['pne'] = pne
    spec['png'] = [draw(st.one_of(st.none(), GAIN.map(repr))) for _ in range(D)]
    # make sure the extremes occur
    n = spec['n']
    spec['specials'] = [[0, j, 0] for j in range(D)] + [[min(1, n - 1), j, spec['ranges'][j] - 1] for j in range(D)]
    return spec, a0s, a1s


@st.composite
def _case(draw):
    spec, a0s, a1s = draw(base_sample())
    D = len(spec['widths'])
    container = draw(st.sampled_from(['sample', 'sample', 'sample', 'array']))
    form = draw(st.sampled_from(['list', 'list', 'scalar', 'none']))
    if form == 'none':
        sel = list(range(D))
    elif form == 'scalar':
        sel = [draw(st.integers(0, D - 1))]
    else:
        sel = draw(st.lists(st.integers(0, D - 1), min_size=0, max_size=D, unique=True))     # incl. the empty request
    k = len(sel)
    spell = [draw(st.sampled_from(['name', 'pos', 'neg', 'name', 'pos'])) for _ in sel]
    over = {}
    which = draw(st.lists(st.sampled_from(['at', 'gain', 'res']), max_size=3, unique=True))
    if container == 'array':
        which = sorted(set(which) | {'at', 'res'})
    if 'at' in which:
        vals = []
        for _ in range(k):
            a0 = draw(A0)
            vals.append(None if (container != 'array' and draw(st.integers(0, 3)) == 0) else [a0, draw(st.floats(0.01, 10.0)) if a0 else 0.0])
        over['at'] = vals
    if 'gain' in which:
        over['gain'] = [None if draw(st.integers(0, 3)) == 0 else draw(GAIN) for _ in range(k)]
    if 'res' in which:
        over['res'] = [None if (container != 'array' and draw(st.integers(0, 3)) == 0) else
                       draw(st.one_of(st.sampled_from([r for r in (256, 1024, 4096, 65536, 262144)
                                                       if r * 32 >= spec['ranges'][j]]),
                                      st.integers(max(2, spec['ranges'][j] // 4), spec['ranges'][j] * 4)))
                       for j in sel]
    signed = draw(st.sampled_from([False, False, True]))
    if container == 'array' and signed and spec['datatype'] == 'I':
        # more events than resolution levels happens with low-resolution detectors: make it happen here
        for j in range(D):
            if draw(st.booleans()):
                spec['ranges'][j] = draw(st.integers(2, max(2, spec['n'])))
        spec['specials'] = [[r_, c_, min(v_, spec['ranges'][c_] - 1)] for r_, c_, v_ in spec.get('specials', [])]
    if container == 'array' and signed and spec['datatype'] == 'I' and 'res' in over:
        over['res'] = [draw(st.integers(spec['ranges'][j], max(spec['ranges'][j], spec['n']))) if draw(st.booleans()) else r_
                       for j, r_ in zip(sel, over['res'])]
    err = draw(st.sampled_from([None] * 20 + ['len_at', 'len_gain', 'len_res', 'scalar_for_list', 'array_no_at']))
    return dict(spec=spec, container=container, form=form, sel=sel, spell=spell, over=over, err=err,
                signed=signed, neg_cells=[[draw(st.integers(0, 19)), draw(st.integers(0, 5))] for _ in range(3)],
                seq=draw(st.sampled_from(['list', 'list', 'tuple', 'nparr'])), derived=draw(st.sampled_from([None, None, None, ['slice', 1], ['slice', 2], ['list', 1], ['perm', 1], ['permname', 2]])),
                order_seed=draw(st.integers(0, 2 ** 16)))


def strategy(tier):
    return _case()


def effective(spec, j, at_o, g_o, r_o, is_array=False):
    """(kind, params) the documented rule selects for channel j."""
    a0, a1 = [float(v) for v in spec['pne'][j].split(',')]
    if at_o is not None:
        at = (float(at_o[0]), float(at_o[1]))
    else:
        at = (a0, 1.0 if (a0 != 0 and a1 == 0) else a1)
    if at[0] == 0:
        g = g_o if g_o is not None else (float(spec['png'][j]) if (spec['png'][j] is not None and not is_array) else 1.0)
        return 'lin', g
    r = r_o if r_o is not None else int(float(spec['ranges'][j]))
    return 'log', (at[0], at[1], float(r))


def law(kind, p, x):
    if kind == 'lin':
        return x / p
    return p[1] * 10 ** (p[0] * x / p[2])


def _spell(j, sp, names, is_array):
    """Channel j spelled by name, by position or by negative position (True/False kept for old replay files)."""
    if sp is True:
        sp = 'name'
    elif sp is False:
        sp = 'pos'
    if sp == 'name' and not is_array:
        return names[j]
    if sp == 'neg':
        return j - len(names)
    return j


def _kw(over, form, idxs=None):
    kw = {}
    names = dict(at='amplification_type', gain='amplifier_gain', res='resolution')
    for key, vals in over.items():
        vv = [(tuple(v) if isinstance(v, list) else v) for v in vals]
        if idxs is not None:
            vv = [vv[i] for i in idxs]
        kw[names[key]] = vv[0] if form == 'scalar' else vv
    return kw


def check(case, obs):
    import FlowCal.transform as tr
    spec = case['spec']
    D = len(spec['widths'])
    d = build(spec) if not case.get('derived') else derived_from_used_parent(spec, case['derived'][1], case['derived'][0])
    names = list(d.channels)
    sel, form, over = case['sel'], case['form'], case['over']
    k = len(sel)
    is_array = case['container'] == 'array'
    data = np.asarray(d).copy() if is_array else d
    x_over = None
    if is_array:
        data = data.astype(data.dtype.newbyteorder('='))
        if case.get('signed') and spec['datatype'] == 'I':
            # a plain signed-integer array with a few negative cells (formula still defined)
            data = data.astype(np.int64)
            for i, (r, c) in enumerate(case.get('neg_cells', [])):
                if data.shape[0] and sel:
                    c = sel[i % len(sel)]                      # negative values in the channels that get converted
                    data[r % data.shape[0], c] = -1 - int(data[r % data.shape[0], c]) % 7
            x_over = data.astype(np.float64)
            obs.label('signed_array_with_negatives')
    chs = [_spell(j, sp, names, is_array) for j, sp in zip(sel, case['spell'])]
    seq = case.get('seq', 'list')
    chs_arg = chs
    if form == 'list' and seq == 'tuple':
        chs_arg = tuple(chs)
    elif form == 'list' and seq == 'nparr' and chs and all(isinstance(c, int) for c in chs):
        chs_arg = np.array(chs)                  # NumPy integer positions: converted correctly or refused
        obs.label('numpy_positions')
    ch_arg = None if form == 'none' else (chs[0] if form == 'scalar' else chs_arg)
    kw = _kw(over, form)
    obs.label('container:' + case['container'], 'form:' + form, 'dtype:' + spec['datatype'])

    # ------------------------------------------------------------------ error arm
    if case['err'] is not None and sel:
        e = case['err']
        obs.label('error_arm')
        obs.nontrivial = True
        lst = chs if form != 'scalar' else chs
        if e == 'array_no_at':
            out = call(tr.to_rfi, np.asarray(d), lst, resolution=[1024] * len(lst))
        elif e == 'scalar_for_list':
            out = call(tr.to_rfi, data, lst, amplification_type=(1.0, 1.0) if len(lst) != 2 else 5.0, resolution=[1024] * len(lst))
            if len(lst) == 2:
                out = call(tr.to_rfi, data, lst, amplification_type=[(1.0, 1.0)] * 2, resolution=1024)
        else:
            key = dict(len_at='amplification_type', len_gain='amplifier_gain', len_res='resolution')[e]
            val = dict(len_at=(0.0, 0.0), len_gain=2.0, len_res=1024)[e]
            base = dict(amplification_type=[(0.0, 0.0)] * len(lst), resolution=[1024] * len(lst))
            base[key] = [val] * (len(lst) + 1)
            out = call(tr.to_rfi, data, lst, **base)
            # too short is as inconsistent as too long: one entry fewer, and no entry at all (list or tuple)
            for short in ([val] * (len(lst) - 1), [], ()):
                if len(short) == len(lst):
                    continue
                b2 = dict(base)
                b2[key] = short
                o2 = call(tr.to_rfi, data, lst, **b2)
                obs.claim('refuse', raised(o2), lambda: 'inconsistent request %s accepted: %d channels, %s=%r' % (e, len(lst), key, short))
        obs.claim('refuse', raised(out), lambda: 'inconsistent request %s accepted' % e)
        return

    before = fingerprint(data)
    kw_before = repr(kw)
    out = call(tr.to_rfi, data, ch_arg, **kw)
    after = fingerprint(data)
    obs.claim('input_intact', repr(kw) == kw_before, lambda: 'to_rfi changed the override lists it was given: %s -> %r' % (kw_before, kw))
    obs.claim('input_intact', not fp_diff(before, after), lambda: 'to_rfi changed its argument: %r' % fp_diff(before, after))
    if isinstance(chs_arg, np.ndarray) and raised(out):
        obs.claims['refuse'] += 1            # a form outside the documented ones may be refused
        return
    if not obs.claim('returns', not raised(out), lambda: 'to_rfi(%r, %r) raised %r' % (ch_arg, kw, out)):
        return
    x = np.array(expand(spec), dtype=np.float64).reshape((-1, D))
    if spec['datatype'] == 'F':
        x = x.astype(np.float32).astype(np.float64)
    if x_over is not None:
        x = x_over
    res = np.asarray(out)
    if not obs.claim('shape_meta', res.shape == x.shape and res.dtype == np.float64,
                     lambda: 'result shape/dtype %r %r' % (res.shape, res.dtype)):
        return
    kinds = []
    for i, j in enumerate(sel):
        at_o = over['at'][i] if 'at' in over else None
        g_o = over['gain'][i] if 'gain' in over else None
        r_o = over['res'][i] if 'res' in over else None
        kind, p = effective(spec, j, at_o, g_o, r_o, is_array)
        kinds.append(kind)
        exp = np.array([law(kind, p, float(v)) for v in x[:, j]])
        obs.claim('law', bool(np.all(np.abs(res[:, j] - exp) <= 1e-12 * np.abs(exp))),
                  lambda: 'channel %d (%s): %s law with %r gives %r..., got %r...' % (j, names[j], kind, p, exp[:3], res[:3, j]))
    for j in range(D):
        if j not in sel:
            obs.claim('others', bool(np.array_equal(res[:, j], x[:, j])), lambda: 'unselected channel %d changed' % j)
    a0_frac = any(float(spec['pne'][j].split(',')[0]) % 1 for j in sel)
    obs.nontrivial = (k >= 2 and len(set(kinds)) == 2) or any(v is not None for vals in over.values() for v in vals) or a0_frac
    if len(set(kinds)) == 2:
        obs.label('mixed_log_linear')
    if over:
        obs.label('override:' + '+'.join(sorted(over)))
    if not is_array:
        fa, fb = fingerprint(d), fingerprint(out)
        same = [f for f in fp_diff(fa, fb) if f not in ('data', 'range', 'kind', 'itemsize')]
        obs.claim('shape_meta', not same and type(out) is type(d), lambda: 'metadata changed by to_rfi: %r' % same)
        for j in range(D):
            if j not in sel:
                obs.claim('others', list(out.range(j)) == list(d.range(j)), lambda: 'range of unselected channel %d changed' % j)

    # ------------------------------------------------------------------ equivalent routes
    def same_result(o, what):
        ok = (not raised(o) and np.asarray(o).shape == res.shape and np.array_equal(np.asarray(o), res)
              and (is_array or [list(r) for r in o.range()] == [list(r) for r in out.range()]))
        obs.claim('equiv', ok, lambda: '%s differs from the one-call result (%r)' % (what, o if raised(o) else ''))

    # a converted sample is a sample: converting one of its channels again, with settings given by the caller,
    # applies that law to the values it holds now
    if k >= 1 and not raised(out):
        ch0 = chs[0]
        j0 = sel[0]
        again = call(tr.to_rfi, out, ch0, amplification_type=(0.0, 0.0), amplifier_gain=4.0)
        want = np.asarray(out, dtype=float)[:, j0] / 4.0
        obs.claim('law', not raised(again) and bool(np.array_equal(np.asarray(again)[:, j0], want, equal_nan=True)),
                  lambda: 'converting channel %r of an already converted sample with an explicit linear gain 4: %r' % (
                      ch0, again if raised(again) else 'values are not x/4'))
    perm = list(np.random.Generator(np.random.PCG64(case['order_seed'])).permutation(k))
    for order, nm in ((perm, 'sequential (drawn order)'), (list(reversed(range(k))), 'sequential (reversed)')):
        cur = data
        for i in order:
            cur = call(tr.to_rfi, cur, chs[i], **_kw(over, 'scalar', [int(i)]))
            if raised(cur):
                break
        same_result(cur, nm)
    if k > 1 and form == 'list':
        o = call(tr.to_rfi, data, [chs[i] for i in perm], **_kw(over, 'list', [int(i) for i in perm]))
        same_result(o, 'one call with the channels permuted')
    if not is_array:
        by_pos = [int(j) for j in sel]
        by_name = [names[j] for j in sel]
        for alt, nm in ((by_pos, 'by position'), (by_name, 'by name')):
            a = None if form == 'none' else (alt[0] if form == 'scalar' else alt)
            same_result(call(tr.to_rfi, data, a, **kw), nm)
