"""C19 -- histogram bin edges are increasing, complete and centred on channel values."""
import math

import numpy as np
from hypothesis import strategies as st

from pbt.props.c18 import solve_p, biexp
from pbt.samples import derived_from_used_parent, call, raised, build, sample_spec, fingerprint, fp_diff, parse_pne

ID = 'C19'
LEVEL = 'exploration'
RULE = ('Hypothesis draws a sample (1..4 channels, resolutions 2^8..2^18 or arbitrary integers >=2, integer or '
        'float data, optionally with negative events), an optional conversion (to RFI, to RFI then MEF), a '
        'channel form (all, name, position, mixed list), a bin count (1, 2, default, arbitrary, per-channel '
        'list), a scale (linear, log, logicle, per-channel list, unknown) and optional logicle overrides. '
        'Non-trivial = non-linear scale or non-default n or a converted range.')
ASSUMPTIONS = ["the channel's range is taken from sample.range() before the call (C03/C07 own its correctness)",
               'oracle biexponential with p by bisection (pbt/props/c18.py); logicle edges compared at 2e-6 of '
               'the transform scale because the library solves p to ~1e-8',
               'bin-centre identities compared at rel. 1e-9']
BUDGET = {
    'quick': dict(examples=3000, time_s=240),
    'thorough': dict(examples=120000, time_s=1500, fuzz=dict(workers=8, runs=6000, max_s=300)),
}

SCALES = ['linear', 'log', 'logicle']
# names that are not scales: fragments, other letter cases and near misses of the three names
UNKNOWN_SCALES = ['', 'l', 'lo', 'lin', 'line', 'logic', 'logicl', 'icle', 'near', 'Linear', 'Logicle', 'log10', 'logicle ', ' log', 'linearlog', 'symlog']


@st.composite
def _case(draw):
    spec = draw(sample_spec(min_d=1, max_d=4, min_n=0, max_n=6, datatypes=('I', 'I', 'I', 'F'),
                            with_time=False))
    D = len(spec['widths'])
    if draw(st.booleans()):
        for j in range(D):
            if draw(st.booleans()):
                spec['ranges'][j] = draw(st.one_of(st.integers(2, 300), st.integers(2, 300000),
                                                    st.sampled_from([2, 3, 1000, 1025, 100000])))
    if spec['datatype'] == 'I':
        w = 32 if max(spec['ranges']) > 65536 else (16 if max(spec['ranges']) > 256 else spec['widths'][0])
        spec['widths'] = [w] * D
    else:
        spec['negatives'] = draw(st.booleans())
        if draw(st.booleans()):
            spec['ranges'] = [spec['ranges'][0]] * D           # equal ranges, channel-specific negative events
        if not spec['negatives'] and draw(st.booleans()):
            # only tiny negative events: the documented W would be negative and is floored at 0
            spec['specials'] = [[0, draw(st.integers(0, D - 1)), -draw(st.sampled_from([1e-3, 1e-6, 0.01, 0.5]))]]
    if spec['n'] == 0:
        spec.pop('specials', None)
    convert = draw(st.sampled_from([None, None, 'rfi', 'rfi', 'mef']))
    form = draw(st.sampled_from(['all', 'name', 'pos', 'neg', 'list', 'list1']))
    if form in ('name', 'pos', 'neg'):
        sel = [draw(st.integers(0, D - 1))]
    elif form == 'list1':
        sel = [draw(st.integers(0, D - 1))]
    elif form == 'list':
        sel = draw(st.lists(st.integers(0, D - 1), min_size=1, max_size=D + 2))      # may repeat channels, beyond D entries
    else:
        sel = list(range(D))
    spell = [draw(st.booleans()) for _ in sel]      # True = by name
    k = len(sel)
    nb = st.one_of(st.none(), st.sampled_from([1, 2, 3, 256, 1024]), st.integers(1, 2000))
    if form in ('all', 'list', 'list1') and draw(st.booleans()):
        nbins = [draw(nb) for _ in range(k)]
    else:
        nbins = draw(nb)
    if form in ('all', 'list', 'list1') and draw(st.booleans()):
        scale = [draw(st.sampled_from(SCALES + SCALES + SCALES + ['cubic', draw(st.sampled_from(UNKNOWN_SCALES))])) for _ in range(k)]
    else:
        scale = draw(st.sampled_from(SCALES + SCALES + ['LOG', 'biexp', draw(st.sampled_from(UNKNOWN_SCALES))]))
    over = {}
    if draw(st.sampled_from([True, False, False, False, False])):
        ints = draw(st.booleans())          # plain Python ints are legal parameter values
        for kname, strat in (('T', st.integers(10, 10 ** 6) if ints else st.floats(10, 1e7)),
                             ('M', st.integers(1, 9) if ints else st.floats(1, 10)),
                             ('W', st.integers(0, 2) if ints else st.floats(0, 2))):
            if draw(st.booleans()):
                over[kname] = draw(strat)
    if spec['datatype'] == 'F' and D >= 2 and spec['n'] > 0 and draw(st.sampled_from([True, False])):
        # channels sharing one stored range but with their own negative events: each needs its own logicle W
        spec['negatives'] = True
        spec['ranges'] = [spec['ranges'][0]] * D
        spec['png'] = [None] * D
        convert = None
        form = draw(st.sampled_from(['all', 'list']))
        sel = list(range(D)) if form == 'all' else draw(st.lists(st.integers(0, D - 1), min_size=D, max_size=D, unique=True))
        spell = [draw(st.booleans()) for _ in sel]
        k = len(sel)
        nbins = draw(nb)
        scale = draw(st.sampled_from(['logicle', 'logicle', ['logicle'] * k]))
        over = dict(draw(st.sampled_from([{}, {}, {}, {'W': 0}, {'W': 0.0}])))
    if over and draw(st.booleans()):
        over['W'] = draw(st.sampled_from([0, 0.0, 0.0, 0.5]))      # an explicit zero is a value, not "not given"
    seq = draw(st.sampled_from(['list', 'list', 'tuple']))
    return dict(np_ints=draw(st.sampled_from([False, False, True])), spec=spec, convert=convert, m=draw(st.floats(0.9, 1.2)), b=draw(st.floats(1, 5)), seq=seq,
                form=form, sel=sel, spell=spell, nbins=nbins, scale=scale, over=over, derived=draw(st.sampled_from([None, None, None, ['slice', 1], ['slice', 2], ['list', 1], ['perm', 1], ['permname', 2]])))


def strategy(tier):
    return _case()


def _edges_ok(e, n, lo, hi, scale, res, data_col, over, obs, ctx):
    e = np.asarray(e, dtype=float)
    if not obs.claim('count', e.ndim == 1 and e.shape[0] == n + 1, lambda: '%s: %r edges for n=%r' % (ctx, e.shape, n)):
        return
    obs.claim('increasing', bool(np.all(np.isfinite(e))) and bool(np.all(np.diff(e) > 0)),
              lambda: '%s: edges not finite/strictly increasing: %r' % (ctx, e[:5]))
    if scale == 'log':
        obs.claim('log_positive', bool(np.all(e > 0)), lambda: '%s: non-positive log edge %r' % (ctx, e[0]))
        lo_eff = lo if lo > 0 else min(1.0, hi / 1e5)
    else:
        lo_eff = lo
    if not (scale == 'logicle' and over):
        obs.claim('covers', e[0] <= lo_eff and e[-1] >= hi,
                  lambda: '%s: edges [%r, %r] do not cover range [%r, %r]' % (ctx, e[0], e[-1], lo_eff, hi))
    if scale == 'logicle':
        T = over.get('T', hi)
        M = over.get('M', max(4.5, 4.5 / math.log10(262144) * math.log10(T)))
        if 'W' in over:
            W = over['W']
        else:
            W = 0.0
            neg = data_col[data_col < 0]
            if neg.size:
                W = max(0.0, (M - math.log10(T / abs(float(neg.min())))) / 2.0)
        p = solve_p(W)
        delta = M / (res - 1.0)
        s = np.linspace(-delta / 2.0, M + delta / 2.0, n + 1)
        ref = np.array([biexp(float(si), T, M, W, p) for si in s])
        sc = T * 10 ** (-(M - W)) * max(1.0, p * p)
        f32 = data_col.dtype == np.float32 and neg.size if 'W' not in over else False
        tol = (1e-4 if f32 else 2e-6) * (np.abs(ref) + sc * (abs(M - W) + 1))
        obs.claim('logicle_image', bool(np.all(np.abs(e - ref) <= tol)),
                  lambda: '%s: logicle edges differ from T(uniform grid): worst %r (T=%r M=%r W=%r)' % (
                      ctx, float(np.max(np.abs(e - ref) / tol)), T, M, W))


def check(case, obs):
    import FlowCal.transform
    spec = case['spec']
    D = len(spec['widths'])
    d = build(spec) if not case.get('derived') else derived_from_used_parent(spec, case['derived'][1], case['derived'][0])
    conv = case['convert']
    if conv in ('rfi', 'mef'):
        d = FlowCal.transform.to_rfi(d)
    if conv == 'mef':
        m, b = case['m'], case['b']
        sc = lambda x: np.sign(x) * math.exp(b) * np.abs(x) ** m
        d = FlowCal.transform.to_mef(d, [0], [sc], [0])
    names = list(d.channels)
    sel = case['sel']
    form = case['form']
    if form == 'all':
        ch_arg = None
    elif form == 'name':
        ch_arg = names[sel[0]]
    elif form == 'pos':
        ch_arg = sel[0]
    elif form == 'neg':
        ch_arg = sel[0] - D
    else:
        ch_arg = [names[j] if sp else j for j, sp in zip(sel, case['spell'])]
        if case.get('seq') == 'tuple':              # any sequence of channels is a list of channels
            ch_arg = tuple(ch_arg)
        elif case.get('seq') == 'array':
            ch_arg = np.array([int(j) for j in sel])
        obs.label('seq:%s' % case.get('seq', 'list'))
    is_list = form in ('all', 'list', 'list1')
    nbins, scale, over = case['nbins'], case['scale'], case['over']
    k = len(sel)
    nb_list = nbins if isinstance(nbins, list) else [nbins] * k
    sc_list = scale if isinstance(scale, list) else [scale] * k
    uses_logicle = any(s == 'logicle' for s in sc_list)
    kw = dict(over) if uses_logicle else {}
    ranges = [list(r) for r in d.range()]
    res = list(d.resolution())
    arr = np.asarray(d)
    before = fingerprint(d)
    if case.get('np_ints') and isinstance(nbins, int):
        nbins = np.int64(nbins)                     # a bin count computed with NumPy is an integer like any other
        obs.label('nbins:numpy_int')
    args_before = repr((ch_arg, nbins, scale, kw))
    out = call(d.hist_bins, ch_arg, nbins, scale, **kw)
    after = fingerprint(d)
    obs.claim('pure', repr((ch_arg, nbins, scale, kw)) == args_before,
              lambda: 'hist_bins changed the arguments it was given: %s -> %r' % (args_before, (ch_arg, nbins, scale, kw)))
    obs.claim('pure', not fp_diff(before, after), lambda: 'hist_bins changed the sample: %r' % fp_diff(before, after))
    bad_scale = [s for s in sc_list if s not in SCALES]
    obs.nontrivial = (any(s != 'linear' for s in sc_list) or any(n is not None for n in nb_list)
                      or conv is not None)
    obs.label('form:' + form, 'convert:%s' % conv, *['scale:%s' % s for s in set(map(str, sc_list))])
    if bad_scale:
        obs.claim('refuse', raised(out), lambda: 'unknown scale %r accepted' % (bad_scale,))
        return
    # a log scale needs a positive upper limit; every generated range has one
    if not obs.claim('returns', not raised(out), lambda: 'hist_bins(%r, %r, %r, %r) raised %r' % (ch_arg, nbins, scale, kw, out)):
        return
    outs = out if is_list else [out]
    snapshot = [np.array(o, dtype=float, copy=True) for o in outs] if all(np.ndim(o) == 1 for o in outs) else None
    if not obs.claim('per_channel', isinstance(out, list) == is_list and len(outs) == k,
                     lambda: 'result container: %r for form %s' % (type(out), form)):
        return
    for i, j in enumerate(sel):
        n = nb_list[i] if nb_list[i] is not None else res[j]
        lo, hi = ranges[j]
        ctx = 'ch %d (%s) n=%r scale=%s range=%r res=%r' % (j, names[j], nb_list[i], sc_list[i], ranges[j], res[j])
        _edges_ok(outs[i], n, lo, hi, sc_list[i], res[j], arr[:, j], kw if sc_list[i] == 'logicle' else {}, obs, ctx)
        # per-channel consistency: the list answer equals the single-channel answer
        single = call(d.hist_bins, j, nb_list[i], sc_list[i], **(kw if sc_list[i] == 'logicle' else {}))
        obs.claim('per_channel', not raised(single) and np.array_equal(np.asarray(single), np.asarray(outs[i])),
                  lambda: '%s: list answer differs from the single-channel answer' % ctx)
        e = np.asarray(outs[i], dtype=float)
        # centred
        if nb_list[i] is None and e.shape[0] == res[j] + 1:
            v = np.arange(res[j], dtype=float)
            if sc_list[i] == 'linear' and conv is None:
                c = (e[:-1] + e[1:]) / 2.0
                obs.claim('centred', bool(np.all(np.abs(c - v) <= 1e-9 * res[j])),
                          lambda: '%s: linear bin centres are not the channel values' % ctx)
                obs.label('centred_linear')
            at = parse_pne(spec['pne'][j])
            if sc_list[i] == 'log' and conv == 'rfi' and at and at[0] != 0:
                c = np.sqrt(e[:-1] * e[1:])
                ref = at[1] * 10 ** (at[0] * v / res[j])
                obs.claim('centred', bool(np.all(np.abs(c - ref) <= 1e-9 * ref)),
                          lambda: '%s: log bin centres are not the RFI values of the channel numbers' % ctx)
                obs.label('centred_log')
        # every reportable value in exactly one bin (small resolutions, raw data)
        if conv is None and res[j] <= 4096 and sc_list[i] in ('linear', 'logicle') and not kw:
            h, _ = np.histogram(np.arange(res[j], dtype=float), bins=e)
            obs.claim('one_bin', int(h.sum()) == res[j],
                      lambda: '%s: %d of %d reportable values fall in a bin' % (ctx, int(h.sum()), res[j]))
    # a single channel taken out of the sample (a one-dimensional sample) gives the edges the parent gives for it
    if sel and d.shape[0] > 0:
        j = sel[0]
        sc0 = sc_list[0]
        kw0 = kw if sc0 == 'logicle' else {}
        col = d[:, j]
        e_par = call(d.hist_bins, j, nb_list[0], sc0, **kw0)
        e_col = call(col.hist_bins, 0, nb_list[0], sc0, **kw0)
        obs.claim('per_channel', raised(e_par) == raised(e_col) and (raised(e_par) or np.array_equal(np.asarray(e_par), np.asarray(e_col))),
                  lambda: 'channel %d alone (d[:, %d].hist_bins, scale %s) gives other edges than the parent for that channel: %r vs %r' % (
                      j, j, sc0, e_col if raised(e_col) else np.asarray(e_col)[[0, -1]], e_par if raised(e_par) else np.asarray(e_par)[[0, -1]]))
    # what a sample answered earlier plays no part in what its descendants (or the sample itself, once its events
    # were overwritten) answer: the same request on a twin that was never asked before gives the same edges
    if uses_logicle and conv is None and not case.get('derived') and d.shape[0] > 0:
        twin = build(spec)
        r1, r2 = FlowCal.transform.to_rfi(d), FlowCal.transform.to_rfi(twin)
        e1, e2 = call(r1.hist_bins, ch_arg, nbins, scale, **kw), call(r2.hist_bins, ch_arg, nbins, scale, **kw)
        same = lambda a, b: raised(a) == raised(b) and (raised(a) or all(
            np.array_equal(np.asarray(x_), np.asarray(y_)) for x_, y_ in zip(a if is_list else [a], b if is_list else [b])))
        obs.claim('history', same(e1, e2), lambda: 'logicle edges of to_rfi(sample) depend on whether the sample was asked before: %r vs %r' % (
            e1 if raised(e1) else [np.asarray(x_)[[0, -1]].tolist() for x_ in (e1 if is_list else [e1])],
            e2 if raised(e2) else [np.asarray(x_)[[0, -1]].tolist() for x_ in (e2 if is_list else [e2])]))
        half = (np.asarray(d) // 2) if np.asarray(d).dtype.kind in 'ui' else (np.asarray(d) / 2)
        d[:, :] = half
        twin[:, :] = half
        e1, e2 = call(d.hist_bins, ch_arg, nbins, scale, **kw), call(twin.hist_bins, ch_arg, nbins, scale, **kw)
        obs.claim('history', same(e1, e2), lambda: 'logicle edges after the events were overwritten depend on whether the sample was asked before: %r vs %r' % (
            e1 if raised(e1) else [np.asarray(x_)[[0, -1]].tolist() for x_ in (e1 if is_list else [e1])],
            e2 if raised(e2) else [np.asarray(x_)[[0, -1]].tolist() for x_ in (e2 if is_list else [e2])]))
        obs.label('descendants_asked_again')
        return
    # edges handed out earlier are not changed by later requests on the same sample
    if snapshot is not None:
        call(d.hist_bins, None, 7, 'linear')
        call(d.hist_bins, 0, None, 'log')
        call(d.hist_bins, 0, 5, 'logicle', T=777.0, M=3.0, W=0.2)
        obs.claim('stable', all(np.array_equal(np.asarray(o, dtype=float), s0) for o, s0 in zip(outs, snapshot)),
                  'bin edges returned earlier changed after later hist_bins calls')
