"""C18 -- the logicle scale is a strictly increasing bijection with an accurate inverse."""
import math

import numpy as np
from hypothesis import strategies as st

from pbt.samples import call, raised, build, sample_spec

ID = 'C18'
LEVEL = 'exploration'
ENGINES = ['lattice enumeration', 'hypothesis']
RULE = ('(T,M,W) from a log/linear lattice over [1,1e8]x[0.2,12]x[0,1.5M] (quick 9^3, thorough 25^3) plus '
        'Hypothesis-drawn triples; each evaluated on a 2001-point display grid of [0,M] against the published '
        'biexponential computed in math floats with p from bisection; data-derived parameters for arrays and '
        'loaded samples (single/list, with/without negative events); refusals; the matplotlib axis. '
        'Non-trivial = W>0 and M!=4.5 (triples), negative events or several data sets (derived).')
ASSUMPTIONS = ['oracle biexponential and bisection for p in pbt/props/c18.py (math floats)',
               'equation compared at rel. 1e-9 of T*10^-(M-W)*max(1,p^2) using the stored p, and at 2e-6 using '
               "the oracle's own p (the library solves p with scipy's default tolerance)"]
BUDGET = {
    'quick': dict(examples=2500, time_s=240, lattice=9),
    'thorough': dict(examples=150000, time_s=1500, lattice=25, fuzz=dict(workers=8, runs=6000, max_s=300)),
}


def W_of_p(p):
    return 2.0 * p * math.log10(p) / (p + 1.0)


def solve_p(W):
    if W == 0:
        return 1.0
    lo, hi = 10 ** (W / 2.0), 10 ** W
    lo = max(1.0, lo * (1 - 1e-12))
    hi = hi * (1 + 1e-12)
    for _ in range(200):
        mid = 0.5 * (lo + hi)
        if W_of_p(mid) < W:
            lo = mid
        else:
            hi = mid
    return 0.5 * (lo + hi)


def biexp(s, T, M, W, p):
    return T * 10 ** (-(M - W)) * (10 ** (s - W) - p * p * 10 ** (-(s - W) / p) + p * p - 1.0)


def check_triple(T, M, W, obs, axis=False):
    import FlowCal.plot
    t = call(FlowCal.plot._LogicleTransform, T=T, M=M, W=W)
    if not obs.claim('constructs', not raised(t), lambda: 'T=%r M=%r W=%r: %r' % (T, M, W, t)):
        return
    p_ref = solve_p(W)
    p_lib = getattr(t, '_p', None)
    if p_lib is not None:
        obs.claim('p_equation', p_lib > 0 and abs(W_of_p(float(p_lib)) - W) <= 1e-6 * max(1.0, W),
                  lambda: 'stored p=%r gives W=%r, wanted %r' % (p_lib, W_of_p(float(p_lib)), W))
    n = 2001
    s = np.linspace(0.0, M, n)
    x = np.asarray(t.transform_non_affine(s), dtype=float)
    scale = T * 10 ** (-(M - W))
    # published equation, oracle p
    ref = np.array([biexp(float(si), T, M, W, p_ref) for si in s])
    tol = 2e-6 * scale * max(1.0, p_ref ** 2) * max(1.0, abs(M - W) + 1) + 1e-300
    err = np.max(np.abs(x - ref) - 2e-6 * np.abs(ref))
    obs.claim('equation', bool(np.all(np.isfinite(x))) and err <= tol,
              lambda: 'T=%r M=%r W=%r: max |x-ref| excess %r > %r' % (T, M, W, err, tol))
    if p_lib is not None:
        ref2 = np.array([biexp(float(si), T, M, W, float(p_lib)) for si in s])
        tol2 = 1e-9 * scale * max(1.0, float(p_lib) ** 2) + 1e-300
        err2 = np.max(np.abs(x - ref2) - 1e-12 * np.abs(ref2))
        obs.claim('equation', err2 <= tol2,
                  lambda: 'T=%r M=%r W=%r: differs from the equation with its own p by %r > %r' % (T, M, W, err2, tol2))
    xw = float(np.asarray(t.transform_non_affine(np.array([W])))[0])
    obs.claim('zero', abs(xw) <= 1e-9 * scale * max(1.0, p_ref ** 2),
              lambda: 'x(W)=%r for T=%r M=%r W=%r' % (xw, T, M, W))
    dx = np.diff(x)
    obs.claim('increasing', bool(np.all(dx > 0)),
              lambda: 'T=%r M=%r W=%r: not strictly increasing at s=%r' % (T, M, W, s[int(np.argmin(dx))]))
    inv = call(t.inverted)
    if not obs.claim('inverse', not raised(inv), lambda: 'inverted(): %r' % (inv,)):
        return
    # objects built later (other parameters) must not change what this one computes
    call(FlowCal.plot._LogicleTransform, T=T * 3 + 7, M=M + 0.37, W=W / 2.0 + 0.11)
    x_again = np.asarray(t.transform_non_affine(s), dtype=float)
    obs.claim('stable', bool(np.array_equal(x_again, x)) and (t.T, t.M, t.W) == (T, M, W),
              'a transform changed after another transform was constructed')
    s2 = np.asarray(call(inv.transform_non_affine, x), dtype=float)
    e = float(np.max(np.abs(s2 - s))) if s2.shape == s.shape else float('inf')
    obs.claim('inverse', e <= 1e-4 * M, lambda: 'T=%r M=%r W=%r: inverse error %r > 1e-4*M' % (T, M, W, e))
    # data values often come as integers (raw channel numbers): the inverse takes them as it takes floats
    xi = np.unique(np.clip(np.array([0, 1, 3, 10, 100, 1000, 30000]), None, int(max(x[-1], 0))))
    si = call(inv.transform_non_affine, xi.astype(np.int64))
    sf = np.asarray(inv.transform_non_affine(xi.astype(np.float64)), dtype=float)
    obs.claim('inverse', not raised(si) and bool(np.allclose(np.asarray(si, dtype=float), sf, rtol=0, atol=1e-9 * M)),
              lambda: 'T=%r M=%r W=%r: inverse of integer data values %r is %r, of the same values as floats %r' % (T, M, W, xi.tolist(), si, sf.tolist()))
    xs = np.linspace(x[0], x[-1], 4001)
    s3 = np.asarray(inv.transform_non_affine(xs), dtype=float)
    obs.claim('inverse_monotone', bool(np.all(np.diff(s3) >= 0)) and bool(np.all(np.diff(s2) >= 0)),
              lambda: 'T=%r M=%r W=%r: inverse decreases' % (T, M, W))
    obs.claim('inverse_range', bool(np.all(s3 >= -1e-9 * M) and np.all(s3 <= M * (1 + 1e-9))),
              'inverse leaves [0,M]')
    if axis:
        import matplotlib
        matplotlib.use('Agg')
        import matplotlib.pyplot as plt
        fig = plt.figure()
        try:
            ax = fig.add_subplot(111)
            r = call(ax.set_xscale, 'logicle', T=T, M=M, W=W)
            if obs.claim('axis', not raised(r), lambda: 'set_xscale: %r' % (r,)):
                tr = ax.xaxis.get_transform()
                sa = np.asarray(tr.transform_non_affine(x[1:-1]), dtype=float)
                obs.claim('axis', float(np.max(np.abs(sa - s[1:-1]))) <= 1e-4 * M,
                          'axis transform is not the inverse')
                before_draw = np.asarray(tr.inverted().transform_non_affine(s[1:-1]), dtype=float)
                ax.set_xlim(x[1], x[-2])
                call(fig.canvas.draw)
                ax.xaxis.get_major_locator().tick_values(x[1], x[-2])
                ax.xaxis.get_minor_locator().tick_values(x[1], x[-2])
                after_draw = np.asarray(ax.xaxis.get_transform().inverted().transform_non_affine(s[1:-1]), dtype=float)
                obs.claim('axis', bool(np.array_equal(before_draw, after_draw)) and float(np.max(np.abs(after_draw - x[1:-1]) - 2e-6 * np.abs(x[1:-1]))) <= tol,
                          "drawing the axis (computing its ticks) changed the scale's transform")
                span = abs(x[-1] - x[0]) + 1.0
                ax.set_xlim(x[0] - span, x[-1] + span)
                lo, hi = ax.get_xlim()
                obs.claim('axis', lo >= x[0] - 1e-9 * abs(x[0]) - 1e-300 and hi <= x[-1] + 1e-9 * abs(x[-1]) + 1e-300,
                          lambda: 'limits (%r,%r) not clamped to (%r,%r)' % (lo, hi, x[0], x[-1]))
        finally:
            plt.close(fig)


# ----------------------------------------------------------------------------------------------
# lattice
# ----------------------------------------------------------------------------------------------

def lattice(k):
    Ts = [10 ** (8.0 * i / (k - 1)) for i in range(k)]
    Ms = [0.2 + (12 - 0.2) * i / (k - 1) for i in range(k)]
    Wf = [1.5 * i / (k - 1) for i in range(k)]
    return Ts, Ms, Wf


def exhaustive_jobs(tier):
    k = BUDGET[tier]['lattice']
    return [(k, i) for i in range(k)]


def run_job(job):
    from pbt.runner import Obs
    k, i = job
    Ts, Ms, Wf = lattice(k)
    T = Ts[i]
    ev = nt = 0
    failures = []
    claims = {}
    samples = []
    for M in Ms:
        for wf in Wf:
            W = wf * M
            obs = Obs()
            check_triple(T, M, W, obs)
            ev += 1
            if W > 0 and M != 4.5:
                nt += 1
                if len(samples) < 1:
                    samples.append(dict(arm='lattice', T=T, M=M, W=W))
            for c, v in obs.claims.items():
                claims[c] = claims.get(c, 0) + v
            for tag, msg in obs.failures[:2]:
                if len(failures) < 10:
                    failures.append((tag, msg, dict(arm='triple', T=T, M=M, W=W, axis=False)))
    return dict(evaluations=ev, nontrivial=nt, failures=failures, labels={'lattice': ev}, claims=claims,
                samples=samples, complete=True)


# ----------------------------------------------------------------------------------------------
# strategies
# ----------------------------------------------------------------------------------------------

@st.composite
def _triple(draw):
    T = 10 ** draw(st.floats(0, 8))
    if draw(st.integers(0, 9)) == 0:
        T = float(draw(st.sampled_from([1, 256, 1023, 1024, 262144, 10 ** 8])))
    M = draw(st.one_of(st.floats(0.2, 12), st.sampled_from([0.2, 4.5, 12.0, 1.0])))
    W = draw(st.one_of(st.just(0.0), st.floats(0, 1.5).map(lambda f: f * M), st.just(1.5 * M),
                       st.floats(0, 1e-3), st.just(0.5), st.floats(-8.0, -2.0).map(lambda e: 10.0 ** e)))   # small W, log-uniform
    return dict(arm='triple', T=T, M=M, W=W, axis=draw(st.integers(0, 19)) == 0)


@st.composite
def _derived(draw):
    k = draw(st.integers(1, 3))
    kind = draw(st.sampled_from(['array', 'sample', 'sample', 'mixed']))
    # how the channel is given: one position for all sets, one name for all sets (samples only; the named
    # channel sits in a different column of each sample), or no channel (every set is one-dimensional)
    chmode = draw(st.sampled_from(['pos', 'pos', 'flat'] if kind != 'sample' else ['pos', 'name', 'name', 'flat']))
    if kind == 'mixed':
        k = max(k, 2)
    nonpos = kind == 'array' and draw(st.integers(0, 7)) == 0      # no positive value anywhere: derived T <= 0
    sets = []
    for i in range(k):
        skind = kind if kind != 'mixed' else ('sample' if i == 0 else ('array' if i == 1 else draw(st.sampled_from(['array', 'sample']))))
        if skind == 'array':
            n = draw(st.integers(1, 30))
            vals = draw(st.lists(st.one_of(st.floats(1e-3, 1e6), st.floats(-1e4, -1e-3),
                                           st.integers(0, 70000).map(float)),
                                 min_size=n, max_size=n))
            if nonpos:
                vals = [draw(st.sampled_from([0.0, 0.0, -1.0, -250.5])) for _ in range(n)]
            else:
                vals[draw(st.integers(0, n - 1))] = draw(st.floats(1.5, 1e7))     # at least one positive
            as_int = (not nonpos) and draw(st.sampled_from([False, False, True]))
            if as_int:
                vals = [float(int(v)) for v in vals]          # a signed integer array (negative events keep their meaning)
            sets.append(dict(kind='array', values=vals, width=draw(st.integers(1, 3)), as_int=as_int))
        else:
            spec = draw(sample_spec(min_d=1, max_d=3, min_n=1, max_n=25, datatypes=('I', 'F'), log_amp=False))
            spec['negatives'] = draw(st.booleans())
            if spec['datatype'] == 'F' and spec['n'] > 0 and draw(st.integers(0, 3)) == 0:
                # floating-point events may exceed the declared range: T is still the range, not the largest event
                spec['specials'] = list(spec.get('specials') or []) + [[0, c_, 3.5 * spec['ranges'][c_]] for c_ in range(len(spec['widths']))]
            if draw(st.integers(0, 5)) == 0:
                spec['n'] = 0                      # a sample gated down to nothing still knows its range
                spec.pop('specials', None)
            sets.append(dict(kind='sample', spec=spec, to_rfi=draw(st.sampled_from([False, True, 'log'])),
                             col=draw(st.integers(0, len(spec['widths']) - 1))))
    if kind == 'mixed' and draw(st.booleans()):
        sets.reverse()
    over = {}
    for kname, strat in (('T', st.floats(1, 1e8)), ('M', st.floats(0.5, 12)), ('W', st.floats(0, 3))):
        if draw(st.integers(0, 4)) == 0:
            over[kname] = draw(strat)
    return dict(arm='derived', kind=kind, chmode=chmode, sets=sets, as_list=(k > 1) or draw(st.booleans()), over=over)


@st.composite
def _refuse(draw):
    which = draw(st.sampled_from(['T', 'M', 'W']))
    T, M, W = 1000.0, 4.5, 0.5
    if which == 'T':
        T = draw(st.one_of(st.just(0.0), st.floats(-1e6, 0)))
    elif which == 'M':
        M = draw(st.one_of(st.just(0.0), st.floats(-12, 0)))
    else:
        W = draw(st.floats(-5, -1e-9))
    return dict(arm='refuse', T=T, M=M, W=W, with_data=draw(st.sampled_from([False, False, True])))


def strategy(tier):
    return st.one_of(_triple(), _triple(), _triple(), _derived(), _derived(), _refuse())


def check(case, obs):
    import FlowCal.plot
    import FlowCal.transform
    arm = case['arm']
    obs.label('arm:' + arm)
    if arm == 'triple':
        obs.nontrivial = case['W'] > 0 and case['M'] != 4.5
        if case.get('axis'):
            obs.label('axis')
        check_triple(case['T'], case['M'], case['W'], obs, axis=case.get('axis', False))
    elif arm == 'refuse':
        kw = dict(data=np.array([1.0, 5.0, -3.0, 250.0])) if case.get('with_data') else {}     # invalid is invalid, data or not
        t = call(FlowCal.plot._LogicleTransform, T=case['T'], M=case['M'], W=case['W'], **kw)
        obs.claim('refuse', raised(t), lambda: 'T=%r M=%r W=%r accepted%s' % (case['T'], case['M'], case['W'], ' (data given)' if kw else ''))
        obs.nontrivial = True
    else:
        data = []
        exp_T = 0.0
        mins = []
        chmode = case['chmode']
        common = 0
        if chmode == 'pos':
            # one position for every set: it must exist in each of them
            common = min([len(s_['spec']['widths']) - 1 if s_['kind'] == 'sample' else s_['width'] - 1 for s_ in case['sets']]
                         + [s_['col'] for s_ in case['sets'] if s_['kind'] == 'sample'][:1])
        for sset in case['sets']:
            if sset['kind'] == 'array':
                a = np.array(sset['values'], dtype=np.int64 if sset.get('as_int') else float)
                if chmode != 'flat':
                    cols = [np.full_like(a, 7.0 + 3.0 * j) for j in range(sset['width'])]
                    cols[common] = a
                    a = np.column_stack(cols)
                exp_T = max(exp_T, float(max(sset['values'])))
                mins.append(float(min(sset['values'])))
                data.append(a)
            else:
                spec = sset['spec']
                col = common if chmode == 'pos' else sset['col']
                if chmode == 'name':
                    spec = dict(spec, names=[('CH %d' % j if nm == 'Common-A' else nm) for j, nm in enumerate(spec['names'])])
                    spec['names'][col] = 'Common-A'
                d = build(spec)
                if sset['to_rfi'] == 'log':
                    # a log amplifier: the converted range starts at 1, not at 0; T is still its upper limit
                    R0 = float(spec['ranges'][col])
                    d = FlowCal.transform.to_rfi(d, col, amplification_type=(4.0, 1.0), resolution=R0)
                    exp_T = max(exp_T, float(d.range(col)[1]))
                    obs.claim('derived', abs(d.range(col)[1] - 10 ** (4.0 * (R0 - 1) / R0)) <= 1e-9 * d.range(col)[1] and d.range(col)[0] == 1.0,
                              'converted range is not [1, 10^(4(R-1)/R)]')
                elif sset['to_rfi']:
                    d = FlowCal.transform.to_rfi(d, col, amplification_type=(0.0, 0.0), amplifier_gain=2.0)
                    exp_T = max(exp_T, (float(spec['ranges'][col]) - 1) / 2.0)
                else:
                    exp_T = max(exp_T, float(spec['ranges'][col]) - 1)
                if d.shape[0]:
                    mins.append(float(np.min(np.asarray(d)[:, col])))
                data.append(d[:, col] if chmode == 'flat' else d)
        ch = {'pos': common, 'name': 'Common-A', 'flat': None}[chmode]
        obs.label('channel:' + chmode)
        over = case['over']
        if exp_T <= 0 and 'T' not in over:
            # no range is known and no value is positive: the documented T (the largest value) is not positive
            obs.label('derived_T_nonpositive')
            obs.nontrivial = True
            t = call(FlowCal.plot._LogicleTransform, data=data if (case['as_list'] or len(data) > 1) else data[0],
                     channel=ch, **over)
            obs.claim('refuse', raised(t), lambda: 'a non-positive data-derived T was accepted: T=%r' % (getattr(t, 'T', None),))
            return
        T = over.get('T', exp_T)
        M = over.get('M', max(4.5, 4.5 / math.log10(262144) * math.log10(T)))
        if 'W' in over:
            W = over['W']
        else:
            W = 0.0
            for r in mins:
                if r < 0:
                    W = max(W, (M - math.log10(T / abs(r))) / 2.0)
        arg = data if case['as_list'] else data[0]
        if not case['as_list'] and len(data) > 1:
            arg = data
        held = list(arg) if isinstance(arg, list) else None
        t = call(FlowCal.plot._LogicleTransform, data=arg, channel=ch, **over)
        if held is not None:
            # the list belongs to the caller, who may derive the scale of another channel from it next
            obs.claim('input_intact', len(arg) == len(held) and all(a_ is b_ for a_, b_ in zip(arg, held)),
                      'the list of data sets handed to the transform was changed')
        obs.nontrivial = any(r < 0 for r in mins) or len(data) > 1
        obs.label('derived:' + case['kind'], 'negatives' if any(r < 0 for r in mins) else 'no_negatives')
        if not obs.claim('derived', not raised(t), lambda: 'construction from data failed: %r' % (t,)):
            return
        # W is computed in the data's own floating type (float32 for $DATATYPE F samples)
        f32 = any(s_['kind'] == 'sample' and s_['spec']['datatype'] == 'F' and not s_['to_rfi'] for s_ in case['sets'])
        wtol = 1e-5 if f32 else 1e-9
        ok = (abs(t.T - T) <= 1e-12 * abs(T) and abs(t.M - M) <= 1e-12 * abs(M) + 1e-15
              and abs(t.W - W) <= wtol * max(1.0, abs(W)))
        obs.claim('derived', ok, lambda: 'T,M,W = %r,%r,%r; documented rules give %r,%r,%r' % (t.T, t.M, t.W, T, M, W))
        obs.claim('derived', t.W >= 0, 'negative W')
