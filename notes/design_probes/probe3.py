import warnings, numpy as np, collections
warnings.simplefilter('ignore')
import FlowCal
from fcsw import write_fcs
def load(path):
    try:
        f = FlowCal.io.FCSFile(path)
        return ('ok', np.array(f.data), dict(f.text))
    except Exception as e:
        return ('exc', type(e).__name__, str(e)[:80])
for kw in [dict(widths=(16,16), ranges=(1024,1024)), dict(widths=(8,24), ranges=(256,1<<24), big=False),
           dict(widths=(32,32), ranges=(1024,1024), datatype='F'), dict(widths=(16,16), ranges=(1024,1024), text_only_offsets=True),
           dict(widths=(16,16), ranges=(1024,1024), end_plus_one=True), dict(widths=(16,16), ranges=(1024,1024), version='FCS2.0')]:
    mat = [[i+1, 2*i+3] for i in range(6)]
    buf = write_fcs('/tmp/scratch/full.fcs', mat, **kw)
    full = load('/tmp/scratch/full.fcs')
    assert full[0]=='ok', full
    res = collections.Counter(); bad=[]
    for cut in range(len(buf)):
        open('/tmp/scratch/cut.fcs','wb').write(buf[:cut])
        r = load('/tmp/scratch/cut.fcs')
        if r[0]=='exc': res[r[1]]+=1
        else:
            same = r[1].shape==full[1].shape and np.array_equal(r[1], full[1]) and r[2]==full[2]
            res['same' if same else 'DIFFERENT']+=1
            if not same: bad.append((cut, r[1].shape, r[1].tolist()[:2], {k:v for k,v in r[2].items() if full[2].get(k)!=v}))
    print(kw, len(buf), dict(res)); print('   bad', bad[:5])
