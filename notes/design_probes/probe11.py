import warnings, numpy as np, pickle, copy
warnings.simplefilter('ignore')
import FlowCal
d = FlowCal.io.FCSData('/repo/test/Data001.fcs')
ATTRS = ['_infile','_text','_analysis','_data_type','_time_step','_acquisition_start_time','_acquisition_end_time','_channels','_amplification_type','_detector_voltage','_amplifier_gain','_channel_labels','_range','_resolution']
def fp(x): return (x.dtype.str, x.shape, x.tobytes(), [repr(getattr(x,a,None)) for a in ATTRS])
def same(a,b):
    fa, fb = fp(a), fp(b)
    return fa==fb or [i for i,(p,q) in enumerate(zip(fa[3],fb[3])) if p!=q] or ('dtype', fa[0], fb[0])
s = FlowCal.transform.to_rfi(d[100:200, ['FL1-H','FSC-H','Time']], 'FL1-H')
for name,obj in [('fresh', d), ('state', s)]:
    for proto in range(0,6):
        r = pickle.loads(pickle.dumps(obj, proto)); print(name, 'pickle', proto, same(obj, r), type(r).__name__, r.dtype)
    print(name, 'copy', same(obj, obj.copy()), 'deepcopy', same(obj, copy.deepcopy(obj)), 'copy.copy', same(obj, copy.copy(obj)), 'view', same(obj, obj.view()))
# independence
c = s.copy(); c._range[0][0] = -5; print('range indep after copy', s._range[0])
v = s.view(); v._range[0][0] = -5; print('range indep after view', s._range[0]); v.text['X']='y'; print('X' in s.text)
sl = s[:, 0:2]; sl._range[0][0] = -7; print('range indep after slice', s._range[0])
sl2 = s[:, ['FL1-H']]; sl2._range[0][0] = -7; print('range indep after list slice', s._range[0])
sl3 = s[:, 'FL1-H']; sl3._range[0][0] = -7; print('range indep after name slice', s._range[0])
sl4 = s[5:10]; sl4._range[0][0] = -7; print('range indep after row slice', s._range[0])
# accessor aliasing: range() returns stored list
r = s.range('FL1-H'); r[0] = -9; print('range accessor aliasing', s._range[0])
# FCSFile eq
f1 = FlowCal.io.FCSFile('/repo/test/Data001.fcs'); f2 = FlowCal.io.FCSFile('/repo/test/Data001.fcs')
print('eq', f1==f2, hash(f1)==hash(f2))
d1 = FlowCal.io.FCSData('/repo/test/Data001.fcs'); print('FCSData eq', np.array_equal(d1, d), type(d1==d))
