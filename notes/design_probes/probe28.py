import sys; sys.path.insert(0,'/tmp/scratch')
import warnings, numpy as np, collections, pickle, copy
warnings.simplefilter('ignore')
import FlowCal
from fcsw import write_fcs
rng = np.random.default_rng(41)
def pub(x):
    a = np.asarray(x)
    return (a.dtype.kind, a.dtype.itemsize, a.shape, a.astype(a.dtype.newbyteorder('=')).tobytes(), x.channels, repr(x.range()), repr(x.resolution()), repr(x.amplification_type()),
            repr(x.detector_voltage()), repr(x.amplifier_gain()), repr(x.channel_labels()), repr(sorted(x.text.items())), repr(sorted(x.analysis.items())), x.infile, x.data_type, x.time_step,
            x.acquisition_start_time, x.acquisition_end_time)
issues=collections.Counter()
for it in range(400):
    D=int(rng.integers(2,6)); N=int(rng.integers(3,30)); big=bool(rng.integers(0,2)); dt=str(rng.choice(['I','F']))
    mat = rng.integers(0,1024,size=(N,D))
    write_fcs('/tmp/scratch/p.fcs', mat.tolist() if dt=='I' else mat.astype(float).tolist(), widths=((16,) if dt=='I' else (32,))*D, ranges=(1024,)*D, big=big, datatype=dt,
              names=['c%d'%i for i in range(D)], pne=[('4,1' if i%2 else '0,0') for i in range(D)],
              extra=[('$BTIM','12:00:00'),('$ETIM','12:01:00'),('$DATE','01-JAN-2020'),('$TIMESTEP','0.1'),('$P1V','500'),('$P2S','lab')])
    s = FlowCal.io.FCSData('/tmp/scratch/p.fcs')
    for step in range(int(rng.integers(0,4))):
        op = rng.choice(['cols','rows','rfi','mef','gate'])
        Dn = s.shape[1]; Nn=s.shape[0]
        if op=='cols' and Dn>1:
            k=int(rng.integers(1,Dn+1)); sel=[int(c) for c in rng.choice(Dn,size=k,replace=False)]
            s = s[:, [s.channels[c] if rng.random()<0.5 else c for c in sel]]
        elif op=='rows' and Nn>2: s = s[int(rng.integers(0,Nn//2)):int(rng.integers(Nn//2+1,Nn+1))]
        elif op=='rfi': s = FlowCal.transform.to_rfi(s, [int(c) for c in rng.choice(Dn,size=int(rng.integers(1,Dn+1)),replace=False)])
        elif op=='mef': 
            c=int(rng.integers(0,Dn)); s = FlowCal.transform.to_mef(s, c, [lambda x: 2.5*np.sign(x)*np.abs(x)**1.1], [c])
        elif op=='gate': s = FlowCal.gate.start_end(s, 1, 0)
    ref = pub(s)
    dups = {'copy': s.copy(), 'copy.copy': copy.copy(s), 'deepcopy': copy.deepcopy(s), 'view': s.view()}
    for p in range(6): dups['pickle%d'%p] = pickle.loads(pickle.dumps(s, p))
    for k,v in dups.items():
        if type(v) is not FlowCal.io.FCSData: issues[k+' type']+=1; continue
        if pub(v)!=ref: issues[k+' neq']+=1; 
        # independence
        v.range(0)[0] = -123.0; v.text['zz']='1'
        if v.size and k!='view': v[0,0] = 77
        if pub(s)!=ref: issues[k+' not independent']+=1
print(dict(issues))
f1=FlowCal.io.FCSFile('/tmp/scratch/p.fcs'); f2=FlowCal.io.FCSFile('/tmp/scratch/p.fcs'); print(f1==f2, hash(f1)==hash(f2), f1!=f2)
