import sys; sys.path.insert(0,'/tmp/scratch')
import warnings, numpy as np, collections, pickle, copy
warnings.simplefilter('ignore')
import matplotlib; matplotlib.use('Agg')
import FlowCal
d0 = FlowCal.io.FCSData('/repo/test/Data001.fcs')[:1500]
S = FlowCal.stats; G = FlowCal.gate; T = FlowCal.transform
def norm(x):
    if isinstance(x, FlowCal.io.FCSData): return ('fcs', x.shape, x.tobytes(), x.channels, repr(x.range()))
    if isinstance(x, np.ndarray): return ('arr', x.shape, x.tobytes())
    if isinstance(x,(list,tuple)): return tuple(norm(e) for e in x)
    return repr(x)
Q = {
 'range': lambda d: d.range(), 'range1': lambda d: d.range('FL1-H'), 'res': lambda d: d.resolution(), 'at': lambda d: d.amplification_type(),
 'bins_lin': lambda d: d.hist_bins('FL1-H', 16, 'linear'), 'bins_log': lambda d: d.hist_bins('FL1-H', 16, 'log'), 'bins_logicle': lambda d: d.hist_bins('FL1-H', 16, 'logicle'),
 'bins_all_log': lambda d: d.hist_bins(None, 8, 'log'),
 'mean': lambda d: S.mean(d), 'median': lambda d: S.median(d,'FL1-H'), 'iqr': lambda d: S.iqr(d,'FL2-H'), 'std': lambda d: S.std(d,['FL1-H','FSC-H']),
 'start_end': lambda d: G.start_end(d, 10, 10), 'high_low': lambda d: G.high_low(d, ['FSC-H','FL1-H']), 'high_low_all': lambda d: G.high_low(d),
 'dens_logicle': lambda d: G.density2d(d, ['FSC-H','SSC-H'], bins=32, gate_fraction=0.5), 'dens_log': lambda d: G.density2d(d, ['FSC-H','SSC-H'], bins=32, gate_fraction=0.5, xscale='log', yscale='log'),
 'ellipse': lambda d: G.ellipse(d, ['FSC-H','SSC-H'], center=(2.5,2.5), a=0.5, b=0.3, theta=0.3, log=True),
 'to_rfi': lambda d: T.to_rfi(d, ['FL1-H','FL2-H']), 'slice': lambda d: d[10:50, ['FL1-H','FSC-H']], 'acq': lambda d: d.acquisition_time, 'str': lambda d: str(d),
 'copy': lambda d: d.copy(), 'pickle': lambda d: pickle.loads(pickle.dumps(d)), 'logicleT': lambda d: (lambda t: (t.T,t.M,t.W))(FlowCal.plot._LogicleTransform(data=d, channel='FL1-H')),
}
base = {k: norm(f(d0.copy())) for k,f in Q.items()}
bad=collections.Counter()
for a in Q:
    for b in Q:
        d = d0.copy()
        Q[a](d)
        if norm(Q[b](d)) != base[b]: bad[(a,b)]+=1
print(len(Q)**2, dict(bad))
