import sys, warnings, numpy as np, time, os
warnings.simplefilter('ignore')
import FlowCal
from fcsw import write_fcs
from probe15 import make
for seed in (3, 20, 32):
    X, labels, laws, res = make(seed)
    nch = X.shape[1]; names=['FL%d'%(i+1) for i in range(nch)]
    write_fcs('/tmp/scratch/bb.fcs', X.astype('f4'), widths=(32,)*nch, ranges=(res,)*nch, datatype='F', names=names)
    d = FlowCal.io.FCSData('/tmp/scratch/bb.fcs')
    np.random.seed(seed)
    lab = np.array(FlowCal.mef.clustering_gmm(d, len(laws[0][3])))
    npop=len(laws[0][3]); conf = np.zeros((npop,npop),int)
    for a,b in zip(labels,lab): conf[a,b]+=1
    print('seed', seed, 'res', res, 'sizes', np.bincount(labels), 'rfi', np.round(laws[0][3],2))
    print(conf)
    t = FlowCal.plot._LogicleTransform(data=d, channel=0)
    print('T,M,W', t.T, t.M, t.W, 'display pos', np.round(t.inverted().transform_non_affine(laws[0][3], mask_out_of_range=False),3))
