import numpy as np
rng = np.random.default_rng(2)
bad_a=bad_b=bad_c=0; tot=0
for it in range(20000):
    a0 = rng.uniform(0.5,8); a1 = rng.uniform(0.01,10); r = int(rng.integers(2,300000))
    m = rng.uniform(0.85,1.25); b = rng.uniform(0,7)
    tf1 = lambda x: a1 * 10**(a0/float(r) * x)
    tf2 = lambda x: np.sign(x)*np.exp(b)*(np.abs(x)**m)
    for tf, lim in ((tf1, [0.0, r-1.0]), (tf2, [a1, tf1(r-1.0)])):
        D = int(rng.integers(1,8)); N=int(rng.integers(1,40))
        X = np.zeros((N,D)); col = int(rng.integers(0,D)); X[:,col] = lim[1]; X[0,col]=lim[0]
        ev = tf(X[:,col])          # strided column path, as in the library
        tot+=1
        s = [tf(lim[0]), tf(lim[1])]                  # current: python/np scalar
        a = tf(np.array(lim, dtype=float))            # contiguous 2-array
        tmp = np.array(lim, dtype=float).reshape(1,2)
        c = tf(np.array([lim]*1, dtype=float).T[:,0]) if False else None
        # strided 2-array with same stride as column
        buf = np.zeros((2,D)); buf[:,col]=lim; bb = tf(buf[:,col])
        if ev[0]!=s[0] or ev[-1]!=s[1] or (N>1 and ev[1]!=s[1]): bad_a+=1
        if ev[0]!=a[0] or (N>1 and ev[1]!=a[1]): bad_b+=1
        if ev[0]!=bb[0] or (N>1 and ev[1]!=bb[1]): bad_c+=1
print('scalar', bad_a, 'contig array', bad_b, 'strided array', bad_c, 'of', tot)
import numpy; numpy.show_config() if False else None
print(np.__config__.show(mode='dicts')['SIMD Extensions'] if hasattr(np.__config__,'show') else '')
