import sys; sys.path.insert(0,'/tmp/scratch')
import warnings, numpy as np, itertools, collections
warnings.simplefilter('ignore')
import FlowCal
from fcsw import write_fcs
def mk(N,D):
    mat=[[100*i+j+1 for j in range(D)] for i in range(N)]
    names=['ch%d'%j for j in range(D)]
    write_fcs('/tmp/scratch/i.fcs', mat, widths=(16,)*D, ranges=tuple(1024*(j+1) for j in range(D)), names=names,
              pne=['%d,1'%(j) if j else '0,0' for j in range(D)], extra=[('$P%dV'%(j+1), str(100+j)) for j in range(D)]+[('$P%dG'%(j+1), str(1+j)) for j in range(D)]+[('$P%dS'%(j+1), 'lab%d'%j) for j in range(D)])
    d = FlowCal.io.FCSData('/tmp/scratch/i.fcs')
    meta = [dict(name=names[j], rng=[0.,1024.*(j+1)-1], res=1024*(j+1), at=(float(j),1.0) if j else (0.,0.), dv=100.+j, ag=1.+j, lab='lab%d'%j) for j in range(D)]
    return d, np.array(mat, dtype=d.dtype), meta
def getmeta(x):
    return [dict(name=n, rng=list(r), res=rs, at=a, dv=v, ag=g, lab=l) for n,r,rs,a,v,g,l in zip(x.channels, x.range(), x.resolution(), x.amplification_type(), x.detector_voltage(), x.amplifier_gain(), x.channel_labels())]
def rows(N):
    out=[('int',i) for i in range(-N-1,N+1)]
    vals=[None]+list(range(-N-1,N+2))
    for a in vals:
        for b in vals:
            for st in (None,1,-1,2,-2): out.append(('slice',slice(a,b,st)))
    for L in range(0,3):
        for t in itertools.product(range(-N,N), repeat=L): out.append(('ilist',list(t)))
    for t in itertools.product([False,True], repeat=N): out.append(('bmask',np.array(t)))
    for t in itertools.product([False,True], repeat=N): out.append(('blist',list(t)))
    out.append(('ell',Ellipsis))
    return out
def cols(D, names):
    out=[('int',i) for i in range(-D-1,D+1)]
    out += [('name',n) for n in names]+[('badname','zz')]
    vals=[None]+list(range(-D-1,D+2))
    for a in vals:
        for b in vals:
            for st in (None,1,-1,2): out.append(('slice',slice(a,b,st)))
    items = list(range(-D,D))+names
    for L in range(0,3):
        for t in itertools.product(items, repeat=L):
            out.append(('list',list(t))); 
            if L: out.append(('tuple',tuple(t)))
    out.append(('ell',Ellipsis))
    for t in itertools.product([False,True], repeat=D): out.append(('boollist',list(t)))
    out.append(('npint',np.int64(0))); out.append(('nparr',np.array([0]))); out.append(('npbool',np.array([True]*D)))
    out.append(('oor_list',[0,D])); out.append(('badname_list',['zz']))
    return out
def tr(ck, names):
    kind,k = ck
    def one(x): return names.index(x) if isinstance(x,str) else x
    if kind in ('name',): return one(k)
    if kind in ('list','tuple','oor_list'): return [one(x) for x in k]
    return k
stats=collections.Counter(); bad=collections.defaultdict(list)
for N in (1,2,3):
    for D in (1,2,3):
        d, base, meta = mk(N,D); names=[m['name'] for m in meta]
        for rk in rows(N):
            for ck in cols(D,names):
                key=(rk[1], ck[1])
                # model
                try:
                    if ck[0] in ('badname','badname_list'): raise KeyError
                    ckt = tr(ck,names)
                    exp = base[(rk[1], ckt)]
                    # selected columns
                    colsel = np.arange(D)[ckt] if not isinstance(ckt,(list,)) else np.arange(D)[ckt]
                    exp_err=None
                except Exception as e:
                    exp_err=type(e).__name__; exp=None
                try:
                    got = d[key]; got_err=None
                except Exception as e:
                    got_err=type(e).__name__; got=None
                cls=(rk[0],ck[0])
                stats[cls]+=1
                if exp_err is not None:
                    if got_err is None: bad['should_raise'].append((N,D,cls,repr(key),exp_err, getattr(got,'shape',None)))
                    continue
                if got_err is not None:
                    if ck[0] in ('ell','npint','nparr','npbool','boollist'): stats['refused_other_'+ck[0]]+=1; continue
                    bad['unexpected_raise'].append((N,D,cls,repr(key),got_err)); continue
                if not np.array_equal(np.asarray(got), exp) or np.shape(got)!=np.shape(exp):
                    bad['values'].append((N,D,cls,repr(key))); continue
                if isinstance(got, FlowCal.io.FCSData):
                    sel = np.atleast_1d(colsel)
                    if sel.dtype==bool: sel=np.flatnonzero(sel)
                    em = [meta[int(c)] for c in sel.ravel()]
                    if getmeta(got)!=em: bad['meta'].append((N,D,cls,repr(key),[m['name'] for m in getmeta(got)],[m['name'] for m in em]))
                elif np.ndim(got)!=0:
                    bad['notfcs'].append((N,D,cls,repr(key),type(got).__name__))
print(sum(v for k,v in stats.items() if isinstance(k,tuple)), {k:v for k,v in stats.items() if not isinstance(k,tuple)})
for k,v in bad.items():
    c=collections.Counter(x[2] for x in v); print(k, len(v), dict(c)); 
    for x in v[:6]: print('    ',x)
