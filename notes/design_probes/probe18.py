import warnings, numpy as np, pandas as pd
warnings.simplefilter('ignore')
import FlowCal
df = pd.DataFrame({'ID':['a','b',None,'d','5', 7], 'S':['x',' y ', 'NA', '', '=1+2', '1.0'], 'I':[1,2,3,4,5,6], 'F':[1.5, np.nan, 2.0, -0.0, 1e300, 3.25], 'M':[1,'t',2.5,None,'',0]}).set_index('ID')
t2 = pd.DataFrame({'K':['k1','k2'],'V':[1,'two']}).set_index('K')
FlowCal.excel_ui.write_workbook('/tmp/scratch/rt.xlsx', [('T1', df), ('Second', t2)])
r = FlowCal.excel_ui.read_table('/tmp/scratch/rt.xlsx', 'T1', index_col='ID')
print(r, r.dtypes, r.index.tolist(), r.index.name, sep='\n')
for c in r.columns: print(c, [ (type(v).__name__, v) for v in r[c].tolist()])
r0 = FlowCal.excel_ui.read_table('/tmp/scratch/rt.xlsx', 'T1')
print(r0.columns.tolist(), r0['ID'].tolist())
# duplicates
d2 = pd.DataFrame({'ID':['a','a'], 'x':[1,2]}).set_index('ID')
FlowCal.excel_ui.write_workbook('/tmp/scratch/rt2.xlsx', [('T', d2)])
try: FlowCal.excel_ui.read_table('/tmp/scratch/rt2.xlsx','T',index_col='ID'); print('no error')
except ValueError as e: print('dup ->', e)
