import sys; sys.path.insert(0,'/tmp/scratch')
import warnings, numpy as np, pandas as pd, time, traceback
warnings.simplefilter('ignore')
import matplotlib; matplotlib.use('Agg')
import FlowCal
from fcsw import write_fcs
rng = np.random.default_rng(3)
def cells_file(path, n=600, res=1024, names=('FSC','SSC','FL1','FL2','Time'), datatype='I', seed=0, pnv=('500','600','700','800',None)):
    rng = np.random.default_rng(seed)
    fsc = np.clip(rng.normal(500,60,n),0,res-1); ssc = np.clip(rng.normal(400,50,n),0,res-1)
    fl1 = np.clip(rng.normal(300,80,n),0,res-1); fl2 = np.clip(rng.normal(600,100,n),0,res-1)
    fl1[:5]=res-1; fl2[5:8]=0; fsc[8:12]=res-1
    t = np.sort(rng.integers(0,res,n))
    X = np.stack([fsc,ssc,fl1,fl2,t],1)
    if datatype=='I': X = np.round(X).astype(int)
    extra=[('$TIMESTEP','0.1'),('$BTIM','12:00:00'),('$ETIM','12:05:00'),('$DATE','01-JAN-2020')]
    for i,v in enumerate(pnv):
        if v is not None: extra.append(('$P%dV'%(i+1), v))
    w = 16 if datatype=='I' else 32
    write_fcs(path, X, widths=(w,)*5, ranges=(res,)*5, datatype=datatype, names=list(names), pne=['0,0','0,0','4,1','4,1','0,0'], extra=extra)
def beads_file(path, npop=8, res=1024, seed=0, names=('FSC','SSC','FL1','FL2','Time')):
    rng = np.random.default_rng(seed)
    n_each = rng.integers(300,500,size=npop); n=int(n_each.sum())
    # channel numbers on log amp 4 decades: rfi = 10**(4*x/1024); choose channel positions
    pos = np.linspace(150, 900, npop)
    fl1 = np.concatenate([rng.normal(p, 6, size=k) for p,k in zip(pos,n_each)])
    fl2 = np.concatenate([rng.normal(p-20, 6, size=k) for p,k in zip(pos,n_each)])
    perm = rng.permutation(n); fl1=fl1[perm]; fl2=fl2[perm]
    fsc = rng.normal(500,30,n); ssc = rng.normal(400,30,n); t=np.sort(rng.integers(0,res,n))
    X = np.round(np.clip(np.stack([fsc,ssc,fl1,fl2,t],1),0,res-1)).astype(int)
    write_fcs(path, X, widths=(16,)*5, ranges=(res,)*5, names=list(names), pne=['0,0','0,0','4,1','4,1','0,0'],
              extra=[('$TIMESTEP','0.1'),('$P1V','500'),('$P2V','600'),('$P3V','700'),('$P4V','800')])
cells_file('c1.fcs', seed=1); cells_file('c2.fcs', seed=2, n=900); cells_file('small.fcs', n=300, seed=3); cells_file('cf.fcs', seed=4, datatype='F')
cells_file('c_othervolt.fcs', seed=5, pnv=('500','600','999','800',None))
beads_file('b1.fcs', seed=1)
inst = pd.DataFrame({'ID':['I1','I2'],'Description':['x','y'],'Forward Scatter Channel':['FSC','FSC'],'Side Scatter Channel':['SSC','SSC'],'Fluorescence Channels':['FL1, FL2','FL1'],'Time Channel':['Time','Time']}).set_index('ID')
beads = pd.DataFrame({'ID':['B1','B2','B3'],'Instrument ID':['I1','I1','I1'],'File Path':['b1.fcs','missing.fcs','b1.fcs'],
  'FL1 MEF Values':['0, 646, 1704, 4827, 15991, 47609, 135896, 273006',  '0, 646, 1704, 4827, 15991, 47609, 135896, 273006', '0, 646, 1704, 4827, 15991, 47609, 135896, 273006'],
  'FL2 MEF Values':[None, None, '1,2,3'],
  'Gate Fraction':[0.3,0.3,0.3],'Clustering Channels':['FL1','FL1','FL1, FL2']}).set_index('ID')
samples = pd.DataFrame({'ID':['S1','S2','S3','S4','S5','S6','S7','S8','S9','S10'],
  'Instrument ID':['I1','I1','I1','I1','I1','I1','I2','I1','I1','I1'],
  'Beads ID':['B1','B1',None,'B2','B1','B1','B1','B1','B1','B3'],
  'File Path':['c1.fcs','c2.fcs','cf.fcs','c1.fcs','nofile.fcs','small.fcs','c1.fcs','c1.fcs','c_othervolt.fcs','c1.fcs'],
  'FL1 Units':['MEF','rfi','Channel','MEF','RFI','RFI','MEF','furlongs','MEF','MEF'],
  'FL2 Units':['a.u.',None,'AU','RFI',None,None,None,None,None,'MEF'],
  'Gate Fraction':[0.5,0.3,0.4,0.5,0.5,0.5,0.5,0.5,0.5,1.5],'Strain':['a']*10}).set_index('ID')
with pd.ExcelWriter('in.xlsx', engine='openpyxl') as w:
    inst.to_excel(w, sheet_name='Instruments'); beads.to_excel(w, sheet_name='Beads'); samples.to_excel(w, sheet_name='Samples')
t=time.time()
try:
    FlowCal.excel_ui.run('/tmp/scratch/xl/in.xlsx', output_path='/tmp/scratch/xl/out.xlsx', verbose=False, plot=('plot' in sys.argv), hist_sheet=True)
    print('done', time.time()-t)
    o = pd.read_excel('out.xlsx', sheet_name='Samples'); print(o[['ID','Analysis Notes','Number of Events','FL1 Mean','FL2 Mean']].to_string())
    o = pd.read_excel('out.xlsx', sheet_name='Beads'); print(o[['ID','Analysis Notes','Number of Events','FL1 Amp. Type','FL1 Detector Volt.']].to_string())
except Exception:
    traceback.print_exc(); print(time.time()-t)
