import warnings, numpy as np, time
warnings.simplefilter('ignore')
import FlowCal
rng = np.random.default_rng(5)
ladders = [[0,646,1704,4827,15991,47609,135896,273006],[0,1614,4035,12025,31896,95682,353225,1077421],
           [0, 792, 2079, 6588, 16471, 47497, 137049, 271647],[0,2015,6154,17914,48793,126582,356000, 886000, 2.1e6, 5e6]]
worst=0; fails=0; tot=0; negauto=0; t0=time.time()
for it in range(3000):
    m = rng.uniform(0.85,1.25); b = rng.uniform(0,7); auto = 0.0 if rng.random()<0.3 else np.exp(rng.uniform(np.log(1),np.log(5000)))
    lad = np.array(ladders[rng.integers(0,len(ladders))], float)
    # choose 5..10 pops subset
    k = rng.integers(5, len(lad)+1); idx = np.sort(rng.choice(len(lad), size=k, replace=False)); mef = lad[idx]
    if np.sum(mef > 3*auto) < 5: continue
    rfi = np.exp((np.log(mef+auto)-b)/m)
    if auto==0 and mef[0]==0: continue  # rfi = 0 => log(0)
    tot+=1
    try:
        sc, bm, params, _, _ = FlowCal.mef.fit_beads_autofluorescence(rfi, mef)
    except Exception as e:
        fails+=1; print('EXC', type(e).__name__, e, m,b,auto,mef); continue
    if params[2]<0: negauto+=1
    bright = rfi[mef>3*auto]
    xs = np.exp(np.linspace(np.log(bright.min()), np.log(bright.max()), 50))
    true = np.exp(b)*xs**m
    err = np.max(np.abs(sc(xs)/true-1))
    if err>worst: worst=err; wcase=(m,b,auto,mef.tolist(),params.tolist(),err)
    if err>0.05: fails+=1; print('FAIL', m,b,auto,mef.tolist(),params.tolist(),err)
print(tot, fails, negauto, worst, wcase, time.time()-t0)
