import numpy as np
rng = np.random.default_rng(3)
bad=0; tot=0
for it in range(3000):
    a0 = rng.uniform(0.5,8); a1 = rng.uniform(0.01,10); r = int(rng.integers(2,300000))
    m = rng.uniform(0.85,1.25); b = rng.uniform(0,7)
    tf1 = lambda x: a1 * 10**(a0/float(r) * x)
    tf2 = lambda x: np.sign(x)*np.exp(b)*(np.abs(x)**m)
    for tf, lim in ((tf1, [0.0, r-1.0]), (tf2, [a1, tf1(r-1.0)])):
        D = int(rng.integers(1,8)); N=int(rng.integers(100,3000))
        X = rng.uniform(lim[0], lim[1], size=(N,D)); col = int(rng.integers(0,D))
        idx = rng.integers(0,N,size=20); X[idx[:10],col]=lim[1]; X[idx[10:],col]=lim[0]
        for dt in (np.float64,):
            ev = tf(X[:,col])
            a = tf(np.array(lim, dtype=float))
            tot+=1
            if not (np.all(ev[idx[:10]]==a[1]) and np.all(ev[idx[10:]]==a[0])): bad+=1
print(bad, tot)
