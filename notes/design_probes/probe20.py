import sys; sys.path.insert(0,'/tmp/scratch')
import warnings, numpy as np
warnings.simplefilter('ignore')
import matplotlib; matplotlib.use('Agg')
import matplotlib.pyplot as plt
import FlowCal
from fcsw import write_fcs
for res,a0,a1 in [(256,4,1),(1024,4.5,0.1),(1000,3,1),(64,2,10)]:
    write_fcs('/tmp/scratch/h.fcs', [[0,1],[res-1,res-1]], widths=(32,32), ranges=(res,res), pne=['%g,%g'%(a0,a1)]*2)
    d = FlowCal.io.FCSData('/tmp/scratch/h.fcs')
    e = d.hist_bins(0, scale='linear'); v=np.arange(res)
    print(res, 'linear centred', np.max(np.abs((e[:-1]+e[1:])/2 - v)))
    s = FlowCal.transform.to_rfi(d)
    e = s.hist_bins(0, scale='log'); y = a1*10**(a0*v/res)
    print(res, 'log centred rel', np.max(np.abs(np.sqrt(e[:-1]*e[1:])/y-1)), len(e))
    e = s.hist_bins(0, scale='logicle'); t = FlowCal.plot._LogicleTransform(data=s, channel=0)
    sd = t.inverted().transform_non_affine(e, mask_out_of_range=False); dd=np.diff(sd)
    print(res, 'logicle spacing spread', dd.max()-dd.min(), t.M/(res-1), 'edges', e[0], e[-1], s.range(0))
# axis
fig, ax = plt.subplots()
ax.plot([0,10,1000],[1,2,3])
ax.set_xscale('logicle', T=1000., M=4.5, W=0.5)
tr = ax.xaxis.get_transform(); print(type(tr).__name__)
t = FlowCal.plot._LogicleTransform(T=1000.,M=4.5,W=0.5)
xs = t.transform_non_affine(np.linspace(0,4.5,50))
print('axis == inverse', np.max(np.abs(np.asarray(tr.transform_non_affine(xs)) - np.linspace(0,4.5,50))))
ax.set_xlim(-1e9, 1e9); print('xlim', ax.get_xlim(), t.transform_non_affine(0), t.transform_non_affine(4.5))
fig.canvas.draw(); print('ticks', ax.get_xticks()[:8])
