import sys; sys.path.insert(0,'/tmp/scratch')
import warnings, numpy as np, copy, traceback
warnings.simplefilter('ignore')
import matplotlib; matplotlib.use('Agg')
import matplotlib.pyplot as plt
import FlowCal
def fp(x):
    if isinstance(x, FlowCal.io.FCSData):
        return ('fcs', x.dtype.str, x.shape, x.tobytes(), x.channels, repr(x.range()), repr(x.text), repr(x.amplification_type()), repr(x.resolution()))
    if isinstance(x, np.ndarray): return ('arr', x.dtype.str, x.shape, x.tobytes())
    if isinstance(x, (list,tuple)): return (type(x).__name__, tuple(fp(e) for e in x))
    if isinstance(x, dict): return ('dict', tuple(sorted((k, fp(v)) for k,v in x.items())))
    return ('v', repr(x))
d0 = FlowCal.io.FCSData('/repo/test/Data001.fcs')[:2000]
def S(): return d0.copy()
R = lambda: FlowCal.transform.to_rfi(S(), ['FL1-H','FL2-H','FL3-H'])
P = FlowCal.plot
calls = []
def add(name, f, **kw): calls.append((name, f, kw))
for sc in ('linear','log','logicle'):
    add('hist1d 2D '+sc, P.hist1d, data_list=[S(), S()[:500]], channel='FL1-H', xscale=sc, bins=64)
    add('hist1d 1D '+sc, P.hist1d, data_list=S()[:, 'FL1-H'], xscale=sc, bins=64)
    add('hist1d rfi '+sc, P.hist1d, data_list=R(), channel='FL1-H', xscale=sc, bins=None, xlim=[1,1000])
    add('density2d '+sc, P.density2d, data=S(), channels=['FSC-H','SSC-H'], xscale=sc, yscale=sc, bins=[32,32])
    add('density2d scatter '+sc, P.density2d, data=S(), channels=['FSC-H','SSC-H'], xscale=sc, yscale=sc, bins=[None,16], mode='scatter', xlim=[1,100], ylim=[1,100])
    add('scatter2d '+sc, P.scatter2d, data_list=[S(), S()[:100]], channels=['FSC-H','SSC-H'], xscale=sc, yscale=sc, color=['r','b'])
    add('scatter3d '+sc, P.scatter3d, data_list=[S()[:300]], channels=['FSC-H','SSC-H','FL1-H'], xscale=sc, yscale=sc, zscale=sc)
    add('scatter3d_proj '+sc, P.scatter3d_and_projections, data_list=[S()[:300]], channels=['FSC-H','SSC-H','FL1-H'], xscale=sc, yscale=sc, zscale=sc)
    add('violin '+sc, P.violin, data=[R()[:400], R()[400:900]], channel='FL1-H', positions=[1,2] if sc!='log' else [0, 10], xscale=('linear' if sc!='log' else 'log'), yscale=sc, violin_kwargs=[{'facecolor':'r'},{'facecolor':'b'}], upper_trim_fraction=[0.01,0.02], lower_trim_fraction=[0.01,0.02], draw_summary_stat_kwargs=[{'color':'k'},{'color':'k'}])
    add('violin_dr '+sc, P.violin_dose_response, data=[R()[:400], R()[400:900], R()[900:1300]], channel='FL1-H', positions=[0, 1, 10], min_data=R()[:300], max_data=R()[1300:], xscale=('linear' if sc!='log' else 'log'), yscale=sc, violin_kwargs=[{'facecolor':'r'},{'facecolor':'b'},{'facecolor':'g'}], model_fxn=lambda x: 10+x)
add('density_and_hist', P.density_and_hist, data=S(), gated_data=S()[:500], density_channels=['FSC-H','SSC-H'], hist_channels=['FL1-H','FL2-H'], density_params={'mode':'scatter','bins':[32,32]}, hist_params=[{'xscale':'log'},{'xscale':'logicle'}])
for name, f, kw in calls:
    before = {k: fp(v) for k,v in kw.items()}
    plt.figure()
    try:
        f(**kw); st='ok'
    except Exception as e:
        st = 'EXC %s: %s' % (type(e).__name__, str(e)[:90])
    plt.close('all')
    changed = [k for k,v in kw.items() if fp(v)!=before[k]]
    print('%-28s %-6s changed=%s' % (name, st[:100], changed))
