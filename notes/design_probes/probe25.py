import sys; sys.path.insert(0,'/tmp/scratch')
import warnings, numpy as np, collections, datetime
warnings.simplefilter('ignore')
import FlowCal
from fcsw import write_fcs
rng = np.random.default_rng(21)
MON=['Jan','Feb','Mar','Apr','May','Jun','Jul','Aug','Sep','Oct','Nov','Dec']
def gen_time():
    kind = rng.choice(['absent','hms','tt','cc','bad'])
    if kind=='absent': return None, None
    h,m,s = int(rng.integers(0,24)), int(rng.integers(0,60)), int(rng.integers(0,60))
    if kind=='hms': return '%02d:%02d:%02d'%(h,m,s), datetime.time(h,m,s)
    if kind=='tt':
        tt=int(rng.integers(0,60)); return '%02d:%02d:%02d:%02d'%(h,m,s,tt), datetime.time(h,m,s,int(tt*1e6/60))
    if kind=='cc':
        cc=int(rng.integers(0,100)); return '%02d:%02d:%02d.%02d'%(h,m,s,cc), datetime.time(h,m,s,cc*10000)
    return str(rng.choice(['25:00:00','12:61:00','12:00','abc','12:00:00:61','12:00:00:ab','12:00:00.xx','1:2:3:4:5',' ','12:00:61'])), None
def gen_date():
    kind = rng.choice(['absent','d-b-y','d-b-Y','y-b-d','Y-b-d','bad'])
    if kind=='absent': return None, None
    y=int(rng.integers(1970,2060)); mo=int(rng.integers(1,13)); d=int(rng.integers(1,29))
    mn = MON[mo-1]; mn = str(rng.choice([mn, mn.upper(), mn.lower()]))
    if kind=='d-b-Y': return '%02d-%s-%04d'%(d,mn,y), datetime.date(y,mo,d)
    if kind=='Y-b-d': return '%04d-%s-%02d'%(y,mn,d), datetime.date(y,mo,d)
    if kind=='d-b-y': 
        yy=y%100; full = 2000+yy if yy<=68 else 1900+yy
        return '%02d-%s-%02d'%(d,mn,yy), datetime.date(full,mo,d)
    if kind=='y-b-d':
        yy=int(rng.integers(32,100)); full = 2000+yy if yy<=68 else 1900+yy
        return '%02d-%s-%02d'%(yy,mn,d), datetime.date(full,mo,d)
    return str(rng.choice(['32-JAN-2020','01-XXX-2020','2020/01/01','abc',' ','01-JAN'])), None
issues=collections.Counter(); ex=collections.defaultdict(list)
def note(tag,*info):
    issues[tag]+=1
    if len(ex[tag])<3: ex[tag].append(info)
for it in range(3000):
    extra=[]; names=['FSC','SSC']
    tc = rng.choice(['none','Time','TIME','time'])
    if tc!='none': names=['FSC', str(tc)]
    ts_kind=rng.choice(['absent','TIMESTEP','TIMETICKS','both']); ts=None
    if ts_kind in ('TIMESTEP','both'): v=float(rng.choice([0.01,0.1,1,0.5])); extra.append(('$TIMESTEP',repr(v))); ts=v
    if ts_kind in ('TIMETICKS','both'):
        v=float(rng.choice([100,200,1000])); extra.append(('TIMETICKS',repr(v)))
        if ts is None: ts=v/1000.
    bs,bt = gen_time(); es,et = gen_time(); ds,dd = gen_date()
    if bs is not None: extra.append(('$BTIM',bs))
    if es is not None: extra.append(('$ETIM',es))
    if ds is not None: extra.append(('$DATE',ds))
    mat=[[5,3],[7,10],[9,40]]
    write_fcs('/tmp/scratch/m.fcs', mat, widths=(16,16), ranges=(1024,1024), extra=extra, names=names, version=str(rng.choice(['FCS2.0','FCS3.0','FCS3.1'])))
    try: d = FlowCal.io.FCSData('/tmp/scratch/m.fcs')
    except Exception as e: note('LOAD '+type(e).__name__, extra); continue
    if d.time_step != ts: note('time_step', d.time_step, ts, extra)
    def comb(t): 
        if t is None: return None
        return datetime.datetime.combine(dd, t) if dd is not None else t
    for nm,got,exp in [('start', d.acquisition_start_time, comb(bt)), ('end', d.acquisition_end_time, comb(et))]:
        if (got is None)!=(exp is None): note(nm+' None-ness', got, exp, extra)
        elif got is not None:
            g = got if isinstance(got, datetime.datetime) else datetime.datetime.combine(datetime.date(2000,1,1), got)
            e = exp if isinstance(exp, datetime.datetime) else datetime.datetime.combine(datetime.date(2000,1,1), exp)
            if type(got)!=type(exp) or abs((g-e).total_seconds())>2e-6: note(nm+' value', got, exp, extra)
    try: at = d.acquisition_time
    except Exception as e: note('acq '+type(e).__name__, tc, ts, bs, es, ds); continue
    if tc!='none' and ts is not None: exp_at = (40-3)*ts
    elif bt is not None and et is not None: exp_at = (datetime.datetime.combine(datetime.date(2000,1,1),et)-datetime.datetime.combine(datetime.date(2000,1,1),bt)).total_seconds()
    else: exp_at=None
    if (at is None)!=(exp_at is None) or (at is not None and abs(at-exp_at)>1e-5): note('acq value', at, exp_at, tc, ts, bs, es, ds)
print(dict(issues))
for k,v in ex.items(): print(k, v[:2])
