import warnings, numpy as np, time
warnings.simplefilter('ignore')
import FlowCal
from FlowCal.plot import _LogicleTransform
rng = np.random.default_rng(11)
fail=0; tot=0; worst_inv=0; nonmono=0; badzero=0; t0=time.time(); invnonmono=0; exs=[]
for it in range(4000):
    T = 10**rng.uniform(0,8); M = rng.uniform(0.2,12); W = rng.choice([0.0, rng.uniform(0,1.5*M), rng.uniform(0, 0.1)])
    tot+=1
    try:
        t = _LogicleTransform(T=T,M=M,W=W)
    except Exception as e:
        fail+=1; exs.append(('ctor', T,M,W,type(e).__name__)); continue
    p = t._p
    if abs(2*p*np.log10(p)/(p+1) - W) > 1e-6*max(1,W): exs.append(('p', T,M,W,p))
    s = np.linspace(0,M,2001)
    x = t.transform_non_affine(s)
    if not np.all(np.diff(x)>0): nonmono+=1; exs.append(('mono',T,M,W,p, int(np.sum(np.diff(x)<=0))))
    scale = T*10**(-(M-W))
    x0 = t.transform_non_affine(W)
    if abs(x0) > 1e-9*scale*max(1,p**2): badzero+=1
    inv = t.inverted()
    s2 = inv.transform_non_affine(x)
    s2 = np.ma.filled(s2, np.nan)
    err = np.nanmax(np.abs(s2-s))/M
    if np.any(np.isnan(s2)): exs.append(('masked', T,M,W, int(np.sum(np.isnan(s2)))))
    worst_inv=max(worst_inv, err)
    if err>1e-4: exs.append(('inv',T,M,W,p,err))
    if not np.all(np.diff(s2[~np.isnan(s2)])>=0): invnonmono+=1
print(tot, 'ctor fail', fail, 'nonmono', nonmono, 'badzero', badzero, 'worst inv/M', worst_inv, 'invnonmono', invnonmono, time.time()-t0)
from collections import Counter
print(Counter(e[0] for e in exs)); print(exs[:12])
