import sys; sys.path.insert(0,'/tmp/scratch')
import warnings, numpy as np, pandas as pd, time
warnings.simplefilter('ignore')
import FlowCal
xl = FlowCal.excel_ui
inst = xl.read_table('in.xlsx','Instruments','ID'); beads = xl.read_table('in.xlsx','Beads','ID'); samples = xl.read_table('in.xlsx','Samples','ID')
np.random.seed(1)
bs, fx, mo = xl.process_beads_table(beads, inst, base_dir='.', full_output=True)
xl.add_beads_stats(beads, bs, mo)
res = xl.process_samples_table(samples, inst, mef_transform_fxns=fx, beads_table=beads, base_dir='.')
# hand S1: FL1 MEF (B1), FL2 a.u., gate 0.5
s = FlowCal.io.FCSData('c1.fcs')
s = FlowCal.transform.to_rfi(s, ['FSC','SSC'])
s = FlowCal.transform.to_rfi(s, 'FL1'); s = fx['B1'](s, 'FL1')
s = FlowCal.transform.to_rfi(s, 'FL2')
g = FlowCal.gate.start_end(s, 250, 100)
g = FlowCal.gate.high_low(g, ['FSC','SSC','FL1','FL2'])
g = FlowCal.gate.density2d(g, ['FSC','SSC'], gate_fraction=0.5, xscale='logicle', yscale='logicle')
r = res['S1']
print(type(r).__name__, r.shape, g.shape, np.array_equal(np.asarray(r), np.asarray(g)), r.range()==g.range(), r.channels==g.channels)
# hand beads B1
b = FlowCal.io.FCSData('b1.fcs'); b = FlowCal.transform.to_rfi(b, ['FSC','SSC','FL1','FL2'])
bg = FlowCal.gate.start_end(b,250,100); bg = FlowCal.gate.high_low(bg, ['FSC','SSC'])
bg = FlowCal.gate.density2d(bg, ['FSC','SSC'], gate_fraction=0.3, xscale='logicle', yscale='logicle', sigma=5.)
print('beads', np.array_equal(np.asarray(bg), np.asarray(bs['B1'])))
np.random.seed(1)
out = FlowCal.mef.get_transform_fxn(bg, [[0, 646, 1704, 4827, 15991, 47609, 135896, 273006]], ['FL1'], clustering_channels=['FL1'], full_output=True)
print(out.fitting['beads_params'][0], mo['B1'].fitting['beads_params'][0])
xl.add_samples_stats(samples, res)
print(samples.loc['S1', ['Number of Events','Acquisition Time (s)','FL1 Mean','FL1 Geom. Mean','Analysis Notes']].tolist(), FlowCal.stats.mean(g,'FL1'), g.acquisition_time)
print(samples.loc['S3', ['FL2 Geom. Mean','Analysis Notes']].tolist())
h = xl.generate_histograms_table(samples, res)
print(h.index.tolist()[:6]); row = h.loc[('S1','FL1','Counts')]; print(np.nansum(row.values.astype(float)), g.shape[0])
