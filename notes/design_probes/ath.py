import sys, io, warnings
sys.path.insert(0, '/tmp/scratch/deps')
import atheris
with atheris.instrument_imports(include=['FlowCal.io']):
    import FlowCal.io
warnings.simplefilter('ignore')
n=[0]
def one(data):
    n[0]+=1
    if len(data)<2: return
    s = data.decode('latin-1')
    try:
        FlowCal.io.read_fcs_text_segment(io.BytesIO(data), 0, len(data)-1)
    except ValueError:
        pass
atheris.Setup(sys.argv, one)
atheris.Fuzz()
