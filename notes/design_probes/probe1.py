import warnings, numpy as np, traceback
warnings.simplefilter('ignore')
import FlowCal
d = FlowCal.io.FCSData('/repo/test/Data001.fcs')
print(d.shape, d.dtype, d.channels, d.range(0), type(d.range(0)))
a = np.array(d)
def t(name, f):
    try:
        r = f(); print(name, 'OK', repr(r)[:120])
    except Exception as e:
        print(name, 'EXC', type(e).__name__, str(e)[:150])
t('mode arr', lambda: FlowCal.stats.mode(a))
t('mode arr ch0', lambda: FlowCal.stats.mode(a, 0))
t('mode fcs', lambda: FlowCal.stats.mode(d))
t('mode fcs ch', lambda: FlowCal.stats.mode(d, 'FL1-H'))
t('mode fcs chs', lambda: FlowCal.stats.mode(d, ['FL1-H','FL2-H']))
import scipy.stats
print(scipy.stats.mode(a, axis=0))
print(scipy.stats.mode(a[:,0], axis=0))
df = FlowCal.transform.to_rfi(d)
for fn in ['mean','gmean','median','std','cv','gstd','gcv','iqr','rcv']:
    f = getattr(FlowCal.stats, fn)
    t(fn+' int fcs', lambda: f(d, 'FL1-H'))
    t(fn+' float fcs', lambda: f(df, 'FL1-H'))
    t(fn+' float fcs list', lambda: f(df, ['FL1-H','FL2-H']))
    t(fn+' float fcs all', lambda: f(df))
# boolean column list
t('bool cols', lambda: (d[:, [True,False,True,False,False,False]].shape, d[:, [True,False,True,False,False,False]].channels))
t('np int col', lambda: d[:, np.int64(1)].channels)
t('ellipsis col', lambda: d[0, ...])
t('ellipsis row', lambda: d[..., 'FL1-H'].channels)
t('ellipsis row list', lambda: (d[..., ['FL1-H', 0]].channels, d[..., ['FL1-H', 0]].shape))
# hist_bins log mutation
d2 = FlowCal.io.FCSData('/repo/test/Data001.fcs')
print('range before', d2.range('FL1-H'))
d2.hist_bins('FL1-H', scale='log')
print('range after log bins', d2.range('FL1-H'))
# high_low plain
t('high_low arr', lambda: FlowCal.gate.high_low(a.astype(float)).shape)
t('high_low arr explicit', lambda: FlowCal.gate.high_low(a.astype(float), high=1000, low=0).shape)
t('high_low fcs', lambda: FlowCal.gate.high_low(d).shape)
