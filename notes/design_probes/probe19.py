import io, itertools, warnings, sys, time
from multiprocessing import Pool
import FlowCal.io as fio
D='/'
def ref(s, supplemental):
    """left-to-right reference. returns ('ok', dict) | ('err',) | ('tol', dict_prefix_tokens, lastbase, k)"""
    if s == '': return ('empty',)
    if not supplemental and s[0] != D: return ('err',)
    last = s.rfind(D)
    if last == -1:
        return ('ok', {}) if supplemental else ('err',)
    body = s[:last+1]          # ends with a delimiter
    i = 0; n = len(body)
    # leading run
    j = 0
    while j < n and body[j]==D: j+=1
    if j == n:
        # only delimiters
        if j == 1: return ('ok', {})
        return ('err',)
    if supplemental:
        if j > 1: return ('err',)
    else:
        if j != 1: return ('err',)
    i = j
    tokens=[]; cur=''
    while i < n:
        c = body[i]
        if c != D:
            cur += c; i += 1; continue
        k = 0
        while i < n and body[i]==D: k+=1; i+=1
        at_end = (i == n)
        if at_end and k % 2 == 0:
            return ('tol', tokens, cur, k)
        cur += D*(k//2)
        if k % 2 == 1:
            tokens.append(cur); cur=''
    if len(tokens)%2: return ('err',)
    return ('ok', dict(zip(tokens[0::2], tokens[1::2])))
def real(s, supplemental, give_delim):
    b = s.encode('latin-1')
    with warnings.catch_warnings(record=True) as w:
        warnings.simplefilter('always')
        try:
            r = fio.read_fcs_text_segment(io.BytesIO(b), 0, len(b)-1, delim=(D if (supplemental or give_delim) else None), supplemental=supplemental)
        except ValueError as e:
            return ('err', str(e))
        except Exception as e:
            return ('EXC', type(e).__name__, str(e))
    return ('warn' if w else 'ok', r[0], r[1])
def work(L):
    bad=[]; cnt=0; cls={}
    for t in itertools.product('/ab', repeat=L):
        s=''.join(t)
        for sup in (False, True):
            for gd in ((False, True) if not sup else (True,)):
                if not sup and not gd and s and s[0]!=D:
                    # delimiter inferred = first char; then reference must use that char: skip here (covered by symmetry)
                    continue
                cnt+=1
                R = ref(s, sup); X = real(s, sup, gd)
                key=(R[0], X[0]); cls[key]=cls.get(key,0)+1
                ok = True
                if R[0]=='empty': ok = X[0]=='ok' and X[1]=={} and X[2] is None
                elif R[0]=='ok': ok = X[0]=='ok' and X[1]==R[1]
                elif R[0]=='err': ok = X[0]=='err'
                elif R[0]=='tol': ok = X[0] in ('err','warn')
                if not ok: bad.append((s, sup, gd, R, X))
    return L, cnt, cls, bad[:10], len(bad)
if __name__=='__main__':
    t=time.time()
    with Pool(12) as p: out = p.map(work, range(0,11))
    for L,cnt,cls,bad,nb in out:
        print(L, cnt, nb, cls if L in (4,10) else '')
        for b in bad[:6]: print('   ', b)
    print(time.time()-t)
