import warnings, numpy as np, pickle, copy
warnings.simplefilter('ignore')
import FlowCal
from fcsw import write_fcs
def t(desc, extra, names=None, version='FCS3.0'):
    mat=[[i, 10*i] for i in range(5)]
    write_fcs('/tmp/scratch/m.fcs', mat, widths=(16,16), ranges=(1024,1024), extra=extra, names=names, version=version)
    try:
        d = FlowCal.io.FCSData('/tmp/scratch/m.fcs')
    except Exception as e:
        print(desc, 'LOAD EXC', type(e).__name__, str(e)[:100]); return
    try: at = d.acquisition_time
    except Exception as e: at = 'EXC %s %s'%(type(e).__name__, e)
    print(desc, '| ts', d.time_step, '| bt', d.acquisition_start_time, '| et', d.acquisition_end_time, '| acq', at, '| dv', d.detector_voltage(), '| ag', d.amplifier_gain(), '| lab', d.channel_labels())
t('none', [])
t('timestep ok', [('$TIMESTEP','0.01')], names=['FSC','Time'])
t('timestep bad', [('$TIMESTEP','abc')])
t('timeticks bad', [('TIMETICKS','abc')])
t('timeticks', [('TIMETICKS','200')], names=['FSC','TIME'])
t('time chan no step', [], names=['FSC','Time'])
t('time chan no step but btim', [('$BTIM','12:00:00'),('$ETIM','12:01:00')], names=['FSC','Time'])
t('btim 3 formats', [('$BTIM','12:00:00'),('$ETIM','12:01:00.50')])
t('btim tt', [('$BTIM','12:00:00:30'),('$ETIM','12:01:00:59')])
t('btim tt bad', [('$BTIM','12:00:00:ab'),('$ETIM','12:01:00:59')])
t('btim tt 60', [('$BTIM','12:00:00:60'),('$ETIM','12:01:00:59')])
t('btim bad', [('$BTIM','garbage'),('$ETIM','25:01:00')])
t('btim empty-ish', [('$BTIM',' '),('$ETIM','12:01')])
t('date', [('$BTIM','12:00:00'),('$ETIM','12:01:00'),('$DATE','01-JAN-2020')])
t('date2', [('$BTIM','12:00:00'),('$ETIM','12:01:00'),('$DATE','01-Jan-20')])
t('date3', [('$BTIM','12:00:00'),('$ETIM','12:01:00'),('$DATE','2020-jan-01')])
t('date bad', [('$BTIM','12:00:00'),('$ETIM','12:01:00'),('$DATE','32-JAN-2020')])
t('only btim + date', [('$BTIM','12:00:00'),('$DATE','01-JAN-2020')])
t('PnV', [('$P1V','450'),('$P2V','abc'),('$P1G','2.5'),('$P2G','')] if False else [('$P1V','450'),('$P2V','abc'),('$P1G','2.5'),('$P2G','x')])
t('cellquest', [('CREATOR','CellQuest Pro 5.1'),('BD$WORD13','600'),('BD$WORD14','bad')])
t('cellquest w/ PnV', [('CREATOR','CellQuest Pro 5.1'),('BD$WORD13','600'),('$P1V','450')])
t('flowjo', [('CREATOR','FlowJoCollectorsEdition 7.5'),('CytekP01G','1.5'),('CytekP02G','zz')])
t('labels', [('$P1S','GFP')])
t('two time', [('$TIMESTEP','0.01')], names=['time','Time'])
t('fcs2.0', [('$TIMESTEP','0.01')], names=['FSC','Time'], version='FCS2.0')
