import hypothesis, json
from hypothesis import given, settings, strategies as st, seed, Phase, HealthCheck
strat = st.fixed_dictionaries({'a': st.integers(0,1000), 'b': st.integers(0,10), 'l': st.lists(st.integers(0,50), max_size=6)})
def check(case):
    out=[]
    if case['a'] > 900 and case['b'] < 2: out.append('big_a')
    if len(case['l']) >= 3 and sum(case['l'])%7==3: out.append('list7')
    return out
def run(mode, tag=None, N=400):
    seen=[]; last={}
    @seed(5)
    @settings(max_examples=N, database=None, deadline=None, suppress_health_check=list(HealthCheck), phases=[Phase.generate] if mode=='collect' else [Phase.generate, Phase.shrink])
    @given(strat)
    def t(case):
        seen.append(json.dumps(case, sort_keys=True))
        v = check(case)
        if mode=='shrink' and tag in v:
            last[tag]=case; raise AssertionError(tag)
    try: t()
    except AssertionError: pass
    return seen, last
s1,_ = run('collect')
first = {}
for i,c in enumerate(s1):
    for tg in check(json.loads(c)): first.setdefault(tg, i)
print('collect', len(s1), first)
for tg in first:
    s2,last = run('shrink', tg)
    print(tg, 'prefix identical', s2[:first[tg]+1]==s1[:first[tg]+1], 'minimal', last[tg], 'calls', len(s2))
