import warnings, numpy as np, time
warnings.simplefilter('ignore')
import FlowCal
from fcsw import write_fcs
rng = np.random.default_rng(7)
def make(npop=8, nch=1, saturate_top=False, blank=True, res=1024, log_amp=False, seed=0):
    rng = np.random.default_rng(seed)
    n_each = rng.integers(200,800,size=npop)
    laws=[]; cols=[]; labels = np.concatenate([np.full(n,i) for i,n in enumerate(n_each)])
    for c in range(nch):
        m = rng.uniform(0.9,1.2); b = rng.uniform(1,5)
        ratio = rng.uniform(2.5,4,size=npop-1)
        # RFI ladder: choose top to be near 0.5*res
        top = res*0.4 if not saturate_top else res*3
        rfi = top/np.concatenate([[1], np.cumprod(ratio[::-1])])[::-1]   # increasing
        mef_true = np.exp(b)*rfi**m
        auto = 0.3*mef_true[1] if blank else 0.3*mef_true[0]
        mef_vals = mef_true - auto
        if blank: mef_vals[0]=0.0; rfi[0] = np.exp((np.log(auto)-b)/m)
        cv = rng.uniform(0.02,0.05)
        x = np.concatenate([rng.normal(r, cv*r, size=n) for r,n in zip(rfi,n_each)])
        cols.append(x); laws.append((m,b,auto,rfi,np.round(mef_vals)))
    X = np.stack(cols,1)
    perm = rng.permutation(len(X)); X=X[perm]; labels=labels[perm]
    return X, labels, laws
X, labels, laws = make(nch=2, seed=1)
print(X.shape, [l[3] for l in laws])
# float data file with range res
write_fcs('/tmp/scratch/b.fcs', X.astype('f4'), widths=(32,)*X.shape[1], ranges=(1024,)*X.shape[1], datatype='F', names=['FL1','FL2'][:X.shape[1]])
d = FlowCal.io.FCSData('/tmp/scratch/b.fcs')
t=time.time()
np.random.seed(0)
out = FlowCal.mef.get_transform_fxn(d, [l[4] for l in laws], ['FL1','FL2'], full_output=True)
print('time', time.time()-t)
lab = np.array(out.clustering['labels'])
# label agreement up to permutation
from collections import Counter
print(Counter(zip(labels.tolist(), lab.tolist())).most_common(10))
for c,l in enumerate(laws):
    m,b,auto,rfi,mefv = l
    print('true', m,b,auto, 'fit', out.fitting['beads_params'][c])
    print('stats', out.statistic['values'][c], 'true rfi', rfi)
    print('sel', out.selection['rfi'][c], out.selection['mef'][c])
    xs = np.exp(np.linspace(np.log(rfi[1]), np.log(rfi[-1]), 30))
    y = out.transform_fxn(np.stack([xs,xs],1), [c] ) if False else out.fitting['std_crv'][c](xs)
    print('max rel err', np.max(np.abs(y/(np.exp(b)*xs**m)-1)))
