import warnings, numpy as np, time
warnings.simplefilter('ignore')
import FlowCal
from fcsw import write_fcs
rng = np.random.default_rng(13)
issues=[]
def chk(desc, cond):
    if not cond: issues.append(desc)
for it in range(150):
    res = int(rng.choice([256,1024,4096,65536,262144, int(rng.integers(2,5000))]))
    w = 32
    a0 = float(rng.choice([0, 4, 4.5]))
    write_fcs('/tmp/scratch/h.fcs', [[0,1],[res-1,res-1]], widths=(w,w), ranges=(res,res), pne=['%g,%g'%(a0, 1 if a0 else 0)]*2)
    d = FlowCal.io.FCSData('/tmp/scratch/h.fcs')
    for conv in ('raw','rfi'):
        s = d if conv=='raw' else FlowCal.transform.to_rfi(d)
        lo,hi = s.range(0)
        for scale in ('linear','log','logicle'):
            for n in (None, 1, 2, 7, 256):
                if n is None and res>70000: continue
                s2 = s.copy()
                try:
                    e = s2.hist_bins(0, n, scale)
                except Exception as ex:
                    issues.append((res,a0,conv,scale,n,'EXC',type(ex).__name__, str(ex)[:60])); continue
                nn = res if n is None else n
                ok_len = len(e)==nn+1
                ok_mono = np.all(np.diff(e)>0) and np.all(np.isfinite(e))
                lo2 = lo
                if scale=='log' and lo<=0: lo2 = min(1., hi/1e5)
                ok_cover = e[0] <= lo2 and e[-1] >= hi
                if not (ok_len and ok_mono and ok_cover):
                    issues.append((res,a0,conv,scale,n,ok_len,ok_mono,ok_cover, e[:2], e[-2:], lo, hi))
                if scale=='log': 
                    if not np.all(e>0): issues.append((res,a0,conv,scale,n,'nonpos'))
print(len(issues)); 
for i in issues[:25]: print(i)
