import warnings, numpy as np, itertools, traceback
warnings.simplefilter('ignore')
import FlowCal
from fcsw import write_fcs
rng = np.random.default_rng(0)
def trial(desc, **kw):
    mat = kw.pop('mat')
    try:
        write_fcs('/tmp/scratch/t.fcs', mat, **kw)
        f = FlowCal.io.FCSFile('/tmp/scratch/t.fcs')
        exp = np.array(mat)
        ok = f.data.shape == exp.shape and np.array_equal(np.asarray(f.data).astype(object) if kw.get('datatype','I')=='I' else f.data, exp.astype(object) if kw.get('datatype','I')=='I' else exp)
        print(desc, 'shape', f.data.shape, f.data.dtype, 'OK' if ok else 'MISMATCH')
        if not ok: print('   got', f.data[:3].tolist(), 'exp', exp[:3].tolist())
    except Exception as e:
        print(desc, 'EXC', type(e).__name__, str(e)[:200])
def randmat(n, widths, ranges=None):
    cols=[]
    for i,w in enumerate(widths):
        hi = (1<<w) if ranges is None else ranges[i]
        vals = [int(rng.integers(0, hi, dtype=np.uint64)) if hi <= (1<<63) else int(rng.integers(0, 1<<63, dtype=np.uint64))*2+int(rng.integers(0,2)) for _ in range(n)]
        if n>0: vals[0]=0
        if n>1: vals[1]=hi-1
        cols.append(vals)
    return [list(r) for r in zip(*cols)] if n>0 else []
for big in (True, False):
    for widths in [(8,8),(16,16),(32,32),(64,64),(24,24),(8,16),(16,8,32),(40,48),(56,64),(8,24,64),(64,8)]:
        ranges = [1<<w for w in widths]
        trial('I big=%s widths=%s'%(big,widths), mat=randmat(5,widths), widths=widths, ranges=ranges, big=big)
# zero events
trial('zero events', mat=[], widths=(16,16), ranges=(1024,1024))
trial('zero events text-only', mat=[], widths=(16,16), ranges=(1024,1024), text_only_offsets=True)
trial('one event', mat=[[1,2]], widths=(16,16), ranges=(1024,1024))
trial('text only offsets', mat=randmat(4,(16,32)), widths=(16,32), ranges=(1<<16,1<<32), text_only_offsets=True)
trial('end plus one', mat=randmat(4,(16,32)), widths=(16,32), ranges=(1<<16,1<<32), end_plus_one=True)
trial('FCS2.0', mat=randmat(4,(16,16)), widths=(16,16), ranges=(1<<16,1<<16), version='FCS2.0')
trial('FCS3.1 little 1,2', mat=randmat(4,(16,16)), widths=(16,16), ranges=(1<<16,1<<16), version='FCS3.1', big=False, byteord='1,2')
trial('byteord 3,4,1,2', mat=randmat(4,(16,16)), widths=(16,16), ranges=(1<<16,1<<16), byteord='3,4,1,2')
trial('range nonpow2 1000 (vals<1000)', mat=randmat(6,(16,16),(1000,1000)), widths=(16,16), ranges=(1000,1000))
m = [[1023+1024, 5],[4095, 7]]
trial('range mask 1024 on 16 bit (expect masked)', mat=m, widths=(16,16), ranges=(1024,1024))
trial('range 1', mat=[[0,1],[0,2]], widths=(8,8), ranges=(1,256))
trial('F', mat=[[1.5,-2.25],[3e10,0.0]], widths=(32,32), ranges=(1024,1024), datatype='F')
trial('D little', mat=[[1.5,-2.25],[3e10,1e-300]], widths=(64,64), ranges=(1024,1024), datatype='D', big=False)
trial('F wrong width', mat=[[1.5,-2.25]], widths=(64,64), ranges=(1024,1024), datatype='F')
trial('A', mat=[[1,2]], widths=(16,16), ranges=(1024,1024), datatype='A')
trial('mode H', mat=[[1,2]], widths=(16,16), ranges=(1024,1024), mode='H')
trial('10 bit', mat=[[1,2]], widths=(10,16), ranges=(1024,1024))
trial('pad', mat=randmat(4,(16,24)), widths=(16,24), ranges=(1<<16,1<<24), pad1=7, pad2=13)
trial('72 bit', mat=[[1,2]], widths=(72,8), ranges=(1024,256))
trial('range 2^64 64-bit mixed', mat=randmat(3,(64,16)), widths=(64,16), ranges=(1<<64, 1<<16))
trial('range float str', mat=randmat(3,(32,32)), widths=(32,32), ranges=('262144.0', '1024'))
