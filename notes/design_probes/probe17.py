import sys, warnings, numpy as np, time, os
warnings.simplefilter('ignore')
import FlowCal
from fcsw import write_fcs
from multiprocessing import Pool
def make(seed, imb):
    rng = np.random.default_rng(seed)
    npop = int(rng.integers(6,9)); nch = int(rng.integers(1,4)); res = int(rng.choice([1024, 262144]))
    blank = bool(rng.integers(0,2))
    base = int(rng.integers(200, int(800/imb)+1))
    n_each = rng.integers(base, int(base*imb)+1, size=npop)
    labels = np.concatenate([np.full(n,i) for i,n in enumerate(n_each)])
    laws=[]; cols=[]
    for c in range(nch):
        m = rng.uniform(0.9,1.2); b = rng.uniform(1,5)
        ratio = rng.uniform(2.5,4,size=npop-1)
        top = res*rng.uniform(0.2,0.5)
        rfi = top/np.concatenate([[1], np.cumprod(ratio[::-1])])[::-1]
        mef_tot = np.exp(b)*rfi**m
        auto = mef_tot[0] if blank else rng.uniform(0,0.5)*mef_tot[0]
        mef = mef_tot - auto
        cv = rng.uniform(0.02,0.05)
        x = np.concatenate([rng.normal(r, cv*r, size=n) for r,n in zip(rfi,n_each)])
        cols.append(x); laws.append((m,b,auto,rfi,mef))
    X = np.stack(cols,1); perm = rng.permutation(len(X))
    return X[perm], labels[perm], laws, res
def run(args):
    seed, imb = args
    X, labels, laws, res = make(seed, imb)
    nch = X.shape[1]; names=['FL%d'%(i+1) for i in range(nch)]
    path='/tmp/scratch/b_%d.fcs'%os.getpid()
    write_fcs(path, X.astype('f4'), widths=(32,)*nch, ranges=(res,)*nch, datatype='F', names=names)
    d = FlowCal.io.FCSData(path)
    np.random.seed(seed)
    try:
        lab = np.array(FlowCal.mef.clustering_gmm(d, len(laws[0][3])))
    except Exception as e:
        return (imb, 'EXC')
    npop=len(laws[0][3]); conf = np.zeros((npop,npop),int)
    for a,b in zip(labels,lab): conf[a,b]+=1
    mis = int(len(labels) - conf.max(axis=1).sum())
    pure = int((conf>0).sum(axis=0).max()<=1 and (conf>0).sum(axis=1).max()<=1)
    return (imb, 'ok', mis, pure, nch)
if __name__=='__main__':
    jobs = [(s, imb) for imb in (1.0, 1.1, 1.25, 1.5, 2.0, 3.0, 4.0) for s in range(160)]
    with Pool(16) as p: res = p.map(run, jobs)
    for imb in (1.0, 1.1, 1.25, 1.5, 2.0, 3.0, 4.0):
        r = [x for x in res if x[0]==imb]
        print(imb, 'n', len(r), 'exc', sum(x[1]=='EXC' for x in r), 'impure', sum(x[1]=='ok' and not x[3] for x in r), 'anymis', sum(x[1]=='ok' and x[2]>0 for x in r),
              'by nch', {k: sum(1 for x in r if x[1]=='ok' and not x[3] and x[4]==k) for k in (1,2,3)})
