import hypothesis, json
from hypothesis import given, settings, strategies as st, seed, Phase, HealthCheck
last = {}
ncalls=[0]
excs = {}
def exc_for(tag):
    if tag not in excs: excs[tag] = type('V_'+tag, (AssertionError,), {})
    return excs[tag]
def check(case):
    out=[]
    if case['a'] > 100 and case['b'] < 5: out.append('big_a')
    if len(case['l']) >= 3 and sum(case['l'])%7==3: out.append('list7')
    return out
@seed(5)
@settings(max_examples=3000, database=None, deadline=None, report_multiple_bugs=True, suppress_health_check=list(HealthCheck))
@given(st.fixed_dictionaries({'a': st.integers(0,1000), 'b': st.integers(0,10), 'l': st.lists(st.integers(0,50), max_size=6)}))
def t(case):
    ncalls[0]+=1
    v = check(case)
    if v:
        last[v[0]] = case
        raise exc_for(v[0])(v[0])
try:
    t()
except BaseException as e:
    print(type(e).__name__, getattr(e,'exceptions',None))
print(ncalls, last)
