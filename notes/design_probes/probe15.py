import sys, warnings, numpy as np, time, os
warnings.simplefilter('ignore')
import FlowCal
from fcsw import write_fcs
from multiprocessing import Pool
def make(seed):
    rng = np.random.default_rng(seed)
    npop = int(rng.integers(6,9)); nch = int(rng.integers(1,4)); res = int(rng.choice([1024, 262144]))
    blank = bool(rng.integers(0,2))
    n_each = rng.integers(200,801,size=npop)
    labels = np.concatenate([np.full(n,i) for i,n in enumerate(n_each)])
    laws=[]; cols=[]
    for c in range(nch):
        m = rng.uniform(0.9,1.2); b = rng.uniform(1,5)
        ratio = rng.uniform(2.5,4,size=npop-1)
        top = res*rng.uniform(0.2,0.5)
        rfi = top/np.concatenate([[1], np.cumprod(ratio[::-1])])[::-1]
        mef_tot = np.exp(b)*rfi**m     # mef + auto
        if blank:
            auto = mef_tot[0]; 
        else:
            auto = rng.uniform(0,0.5)*mef_tot[0]
        mef = mef_tot - auto
        cv = rng.uniform(0.02,0.05)
        x = np.concatenate([rng.normal(r, cv*r, size=n) for r,n in zip(rfi,n_each)])
        cols.append(x); laws.append((m,b,auto,rfi,mef))
    X = np.stack(cols,1); perm = rng.permutation(len(X))
    return X[perm], labels[perm], laws, res
def run(seed):
    X, labels, laws, res = make(seed)
    nch = X.shape[1]; names=['FL%d'%(i+1) for i in range(nch)]
    path='/tmp/scratch/b_%d.fcs'%os.getpid()
    write_fcs(path, X.astype('f4'), widths=(32,)*nch, ranges=(res,)*nch, datatype='F', names=names)
    d = FlowCal.io.FCSData(path)
    np.random.seed(seed)
    t=time.time()
    try:
        out = FlowCal.mef.get_transform_fxn(d, [l[4] for l in laws], names, full_output=True)
    except Exception as e:
        return (seed, 'EXC', type(e).__name__, str(e)[:100])
    lab = np.array(out.clustering['labels'])
    # purity: each found cluster maps to one true label
    npop=len(laws[0][3]); conf = np.zeros((npop,npop),int)
    for a,b in zip(labels,lab): conf[a,b]+=1
    mis = int(len(labels) - conf.max(axis=1).sum())
    errs=[]
    for c,l in enumerate(laws):
        m,b,auto,rfi,mef = l
        sel = out.selection['rfi'][c]
        xs = np.exp(np.linspace(np.log(sel.min()), np.log(sel.max()), 30))
        y = out.fitting['std_crv'][c](xs)
        errs.append(float(np.max(np.abs(y/(np.exp(b)*xs**m)-1))))
    return (seed, 'ok', mis, max(errs), [len(s) for s in out.selection['rfi']], npop, X.shape, time.time()-t)
if __name__=='__main__':
    with Pool(16) as p: res = p.map(run, range(400))
    bad = [r for r in res if r[1]!='ok' or r[2]>0 or r[3]>0.10]
    print(len(res), 'bad', len(bad)); 
    for b in bad[:20]: print(b)
    ok=[r for r in res if r[1]=='ok']; print('max err', max(r[3] for r in ok), 'mean time', np.mean([r[-1] for r in ok]))
