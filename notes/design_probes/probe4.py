import warnings, numpy as np
warnings.simplefilter('ignore')
import FlowCal
d = FlowCal.io.FCSData('/repo/test/Data001.fcs')
print(d.amplification_type(), d.resolution(), d.amplifier_gain())
rng = np.random.default_rng(1)
# to_rfi: log amplifier
bad=0; tot=0; ex=[]
for it in range(3000):
    a0 = float(rng.choice([4.0, 4.5, 3.0, 5.0, rng.uniform(0.5,8)]))
    a1 = float(rng.choice([1.0, 0.1, rng.uniform(0.01,10)]))
    r = int(rng.choice([256,1024,4096,65536,262144, int(rng.integers(2,300000))]))
    x = np.array([[0.0],[r-1.0],[r-2.0],[1.0]]*3)
    # emulate
    tf = lambda x: a1 * 10**(a0/float(r) * x)
    arr = x.copy(); arr[:,0] = tf(arr[:,0])
    lim = [tf(0.0), tf(r-1.0)]
    tot+=1
    if arr[1,0]!=lim[1] or arr[0,0]!=lim[0]:
        bad+=1; ex.append((a0,a1,r,arr[1,0],lim[1],arr[0,0],lim[0]))
print('to_rfi-like disagreements', bad, tot, ex[:3])
# real to_rfi on FCSData with override params
bad=0; tot=0; ex=[]
sub = d[:50].copy()
for it in range(500):
    a0 = float(rng.choice([4.0, 4.5, 3.0, 5.0, rng.uniform(0.5,8)]))
    a1 = float(rng.choice([1.0, 0.1, rng.uniform(0.01,10)]))
    s = sub.copy(); s[0,'FL1-H']=1023; s[1,'FL1-H']=0
    t = FlowCal.transform.to_rfi(s, 'FL1-H', amplification_type=(a0,a1))
    tot+=1
    if t[0,'FL1-H']!=t.range('FL1-H')[1] or t[1,'FL1-H']!=t.range('FL1-H')[0]:
        bad+=1; ex.append((a0,a1,t[0,'FL1-H'],t.range('FL1-H')))
print('to_rfi real disagreements', bad, tot, ex[:3])
# to_mef with sc
bad=0; tot=0; ex=[]
for it in range(2000):
    m = rng.uniform(0.85,1.25); b = rng.uniform(0,7)
    sc = lambda x: np.sign(x)*np.exp(b)*(np.abs(x)**m)
    s = FlowCal.transform.to_rfi(sub, 'FL1-H')
    hi = s.range('FL1-H')[1]; lo = s.range('FL1-H')[0]
    s[0,'FL1-H']=hi; s[1,'FL1-H']=lo
    t = FlowCal.transform.to_mef(s, 'FL1-H', [sc], ['FL1-H'])
    tot+=1
    if t[0,'FL1-H']!=t.range('FL1-H')[1] or t[1,'FL1-H']!=t.range('FL1-H')[0]:
        bad+=1; ex.append((m,b,float(t[0,'FL1-H']),t.range('FL1-H')))
print('to_mef real disagreements', bad, tot, ex[:3])
