import numpy as np, struct
def esc(s, d): return s.replace(d, d+d)
def build_text(kv, delim='/'):
    return (delim + delim.join(esc(k,delim)+delim+esc(v,delim) for k,v in kv) + delim).encode('latin-1')
def encode_data(mat, datatype, widths, big):
    out = bytearray()
    if datatype == 'I':
        for row in mat:
            for v,w in zip(row,widths):
                out += int(v).to_bytes(w//8, 'big' if big else 'little')
    else:
        fmt = ('>' if big else '<') + ('f' if datatype=='F' else 'd')
        for row in mat:
            for v in row: out += struct.pack(fmt, float(v))
    return bytes(out)
def write_fcs(path, mat, widths, ranges, datatype='I', big=True, version='FCS3.0', byteord=None,
              text_only_offsets=False, end_plus_one=False, pad1=0, pad2=0, extra=(), names=None, pne=None, tot=None, par=None, mode='L'):
    D = len(widths)
    if byteord is None: byteord = '4,3,2,1' if big else '1,2,3,4'
    data = encode_data(mat, datatype, widths, big)
    names = names or ['P%d'%(i+1) for i in range(D)]
    def mk(db, de):
        kv = []
        if version != 'FCS2.0':
            kv += [('$BEGINANALYSIS','0'),('$ENDANALYSIS','0'),('$BEGINSTEXT','0'),('$ENDSTEXT','0'),
                   ('$BEGINDATA', '%020d'%db), ('$ENDDATA','%020d'%de)]
        kv += [('$BYTEORD',byteord),('$DATATYPE',datatype),('$MODE',mode),('$NEXTDATA','0'),
               ('$PAR',str(D if par is None else par)),('$TOT',str(len(mat) if tot is None else tot))]
        for i in range(D):
            kv += [('$P%dB'%(i+1), str(widths[i])), ('$P%dE'%(i+1), (pne[i] if pne else '0,0')),
                   ('$P%dN'%(i+1), names[i]), ('$P%dR'%(i+1), str(ranges[i]))]
        kv += list(extra)
        return build_text(kv)
    t0 = mk(0,0)
    text_begin = 58 + pad1
    text_end = text_begin + len(t0) - 1
    data_begin = text_end + 1 + pad2
    data_end = data_begin + len(data) - 1 + (1 if end_plus_one else 0)
    t = mk(data_begin, data_end); assert len(t)==len(t0)
    if text_only_offsets: hb, he = 0, 0
    else: hb, he = data_begin, data_end
    hdr = ('%-10s%8d%8d%8d%8d%8d%8d' % (version, text_begin, text_end, hb, he, 0, 0)).encode()
    assert len(hdr)==58
    buf = hdr + b' '*pad1 + t + b' '*pad2 + data + (b'\x00' if end_plus_one else b'')
    open(path,'wb').write(buf)
    return buf
