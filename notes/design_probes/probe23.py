import sys; sys.path.insert(0,'/tmp/scratch')
import warnings, numpy as np, collections, re
warnings.simplefilter('ignore')
import FlowCal
from fcsw import write_fcs
rng = np.random.default_rng(5)
def load(path):
    try:
        f = FlowCal.io.FCSFile(path); return ('ok', np.array(f.data), dict(f.text))
    except Exception as e:
        return ('exc', type(e).__name__, str(e)[:80])
res=collections.Counter(); bad=[]
for it in range(300):
    D=int(rng.integers(1,5)); N=int(rng.integers(3,9))
    dt = rng.choice(['I','I','F','D'])
    if dt=='I':
        widths=tuple(int(x) for x in rng.choice([8,16,24,32,64], size=D)); 
        if rng.random()<0.4: widths=(int(rng.choice([8,16,32])),)*D
    else: widths=((32,) if dt=='F' else (64,))*D
    ranges=tuple(1<<w for w in widths) if dt=='I' else (1024,)*D
    mat=[[int(rng.integers(0,min(r,1<<62))) for r in ranges] for _ in range(N)] if dt=='I' else rng.normal(size=(N,D)).tolist()
    kw=dict(widths=widths, ranges=ranges, datatype=dt, big=bool(rng.integers(0,2)), version=str(rng.choice(['FCS2.0','FCS3.0','FCS3.1'])),
            end_plus_one=bool(rng.integers(0,2)), pad1=int(rng.integers(0,5)), pad2=int(rng.integers(0,9)))
    kw['text_only_offsets'] = bool(rng.integers(0,2)) and kw['version']!='FCS2.0'
    buf = write_fcs('/tmp/scratch/full.fcs', mat, **kw)
    full = load('/tmp/scratch/full.fcs'); assert full[0]=='ok', (full, kw)
    rowbytes = sum(widths)//8; size=N*rowbytes
    text = buf.decode('latin-1')
    def variants(v): 
        return sorted(set(x for x in [v-1, v+1, v//2, v*2, 0, 99999] if x>=0 and x!=v))
    # keyword corruptions
    fields = ['$TOT','$PAR']+['$P%dB'%(i+1) for i in range(D)]+(['$BEGINDATA','$ENDDATA'] if kw['version']!='FCS2.0' else [])
    for fld in fields:
        m = re.search(re.escape('/'+fld+'/')+r'(\d+)/', text)
        old = m.group(1); 
        for nv in variants(int(old)):
            ns = str(nv).rjust(len(old),'0') if len(str(nv))<=len(old) else None
            if ns is None: continue
            nb = (text[:m.start(1)]+ns+text[m.end(1):]).encode('latin-1')
            open('/tmp/scratch/c.fcs','wb').write(nb)
            r = load('/tmp/scratch/c.fcs')
            # declared size under corruption
            res[(fld, r[0] if r[0]=='exc' else ('same' if (r[1].shape==full[1].shape and np.array_equal(r[1],full[1])) else 'DIFF'))]+=1
            if r[0]=='ok' and not (r[1].shape==full[1].shape and np.array_equal(r[1],full[1])):
                bad.append((fld, old, ns, kw, N, D, r[1].shape))
    # header offsets
    for idx,name in enumerate(['text_begin','text_end','data_begin','data_end']):
        o = 10+8*idx; old=int(text[o:o+8])
        if old==0: continue
        for nv in variants(old):
            if len(str(nv))>8: continue
            nb = (text[:o]+('%8d'%nv)+text[o+8:]).encode('latin-1')
            open('/tmp/scratch/c.fcs','wb').write(nb)
            r = load('/tmp/scratch/c.fcs')
            same = r[0]=='ok' and r[1].shape==full[1].shape and np.array_equal(r[1],full[1]) and r[2]==full[2]
            res[(name, 'exc' if r[0]=='exc' else ('same' if same else 'DIFF'))]+=1
            if r[0]=='ok' and not same: bad.append((name, old, nv, kw, N, D, r[1].shape, {k:v for k,v in r[2].items() if full[2].get(k)!=v}))
for k in sorted(res): print(k, res[k])
print(len(bad))
c=collections.Counter((b[0], int(b[2])-int(b[1])) for b in bad); print(c.most_common(20))
for b in bad[:8]: print(b)
print('---- text_end cases')
for b in bad:
    if b[0]=='text_end': print(b[1], b[2], b[-1], b[3]['pad2'], b[3]['widths'])
