import numpy as np
rng = np.random.default_rng(3)
stats = dict(within=0, small_vs_large=0, contig_large_vs_strided_large=0, padded=0, tot=0, powonly=0)
for it in range(3000):
    a0 = rng.uniform(0.5,8); a1 = rng.uniform(0.01,10); r = int(rng.integers(2,300000))
    tf = lambda x: a1 * 10**(a0/float(r) * x)
    lim=[0.0, r-1.0]
    D = int(rng.integers(2,8)); N=int(rng.integers(100,3000))
    X = rng.uniform(lim[0], lim[1], size=(N,D)); col = int(rng.integers(0,D))
    idx = rng.integers(0,N,size=20); X[idx,col]=lim[1]
    ev = tf(X[:,col]); stats['tot']+=1
    if len(set(ev[idx].tolist()))>1: stats['within']+=1
    a = tf(np.array(lim))
    if ev[idx[0]]!=a[1]: stats['small_vs_large']+=1
    evc = tf(np.ascontiguousarray(X[:,col]))
    if not np.array_equal(evc, ev): stats['contig_large_vs_strided_large']+=1
    # pad: array of same length N filled with lim
    p = tf(np.full(N, lim[1]))
    if p[0]!=ev[idx[0]]: stats['padded']+=1
    e1 = a0/float(r)*X[:,col]; e2 = a0/float(r)*np.array(lim)
    if (10**e1)[idx[0]] != (10**e2)[1]: stats['powonly']+=1
print(stats)
# where does it differ: sizes
for n in [1,2,3,4,7,8,9,15,16,17,31,32,33,64,100,1000]:
    bad=0
    for it in range(2000):
        e = rng.uniform(0,8)
        big = np.full(5000, e); small=np.full(n, e)
        if (10**big)[0] != (10**small)[0]: bad+=1
    print(n, bad)
