import sys; sys.path.insert(0,'/tmp/scratch')
import warnings, numpy as np, collections, math
warnings.simplefilter('ignore')
import FlowCal
from fcsw import write_fcs
rng = np.random.default_rng(9)
issues=collections.Counter(); ex=collections.defaultdict(list)
def note(tag, *info):
    issues[tag]+=1
    if len(ex[tag])<3: ex[tag].append(info)
def sample(D, N, res, pne, png, dtype='I'):
    mat = rng.integers(0, res, size=(N,D)); mat[0,:]=0; mat[1,:]=res-1
    extra=[('$P%dG'%(i+1), repr(g)) for i,g in enumerate(png) if g is not None]
    if dtype=='I': write_fcs('/tmp/scratch/s.fcs', mat.tolist(), widths=(32,)*D, ranges=(res,)*D, pne=pne, extra=extra, names=['c%d'%i for i in range(D)])
    else: write_fcs('/tmp/scratch/s.fcs', mat.astype(float).tolist(), widths=(32,)*D, ranges=(res,)*D, pne=pne, extra=extra, names=['c%d'%i for i in range(D)], datatype='F')
    return FlowCal.io.FCSData('/tmp/scratch/s.fcs'), mat
for it in range(1500):
    D=int(rng.integers(1,6)); N=int(rng.integers(2,20)); res=int(rng.choice([256,1024,65536,262144,int(rng.integers(2,5000))]))
    a0s=[float(rng.choice([0,0,1,4,4.5,rng.uniform(0.1,8)])) for _ in range(D)]
    a1s=[float(rng.choice([0,1,0.1,rng.uniform(0.01,10)])) if a0 else 0.0 for a0 in a0s]
    png=[None if rng.random()<0.5 else float(rng.uniform(0.1,50)) for _ in range(D)]
    pne=['%r,%r'%(a0,a1) for a0,a1 in zip(a0s,a1s)]
    d, mat = sample(D,N,res,pne,png, dtype=str(rng.choice(['I','F'])))
    k=int(rng.integers(1,D+1)); chs=[int(c) for c in rng.choice(D,size=k,replace=False)]
    spell=[('c%d'%c if rng.random()<0.5 else c) for c in chs]
    # overrides
    ov_at = [None if rng.random()<0.6 else (float(rng.choice([0,3,rng.uniform(0.5,6)])), float(rng.uniform(0.1,5))) for _ in chs]
    ov_g  = [None if rng.random()<0.6 else float(rng.uniform(0.5,20)) for _ in chs]
    ov_r  = [None if rng.random()<0.6 else float(rng.integers(2,100000)) for _ in chs]
    kw={}
    if any(o is not None for o in ov_at): kw['amplification_type']=ov_at
    if any(o is not None for o in ov_g): kw['amplifier_gain']=ov_g
    if any(o is not None for o in ov_r): kw['resolution']=ov_r
    try:
        t = FlowCal.transform.to_rfi(d, spell, **kw)
    except Exception as e:
        note('to_rfi EXC '+type(e).__name__, str(e)[:80], spell, kw); continue
    x = np.asarray(d).astype(float)
    for j,c in enumerate(chs):
        at = ov_at[j] if ov_at[j] is not None else ((a0s[c], (1.0 if (a0s[c]!=0 and a1s[c]==0) else a1s[c])))
        if at[0]==0:
            g = ov_g[j] if ov_g[j] is not None else (png[c] if png[c] is not None else 1.0)
            expc = x[:,c]/g
        else:
            r = ov_r[j] if ov_r[j] is not None else res
            expc = np.array([at[1]*10**(at[0]*v/r) for v in x[:,c]])
        if not np.allclose(np.asarray(t)[:,c], expc, rtol=1e-12, atol=0): note('law', c, at, pne[c], png[c], np.asarray(t)[:3,c], expc[:3])
    for c in range(D):
        if c not in chs and not np.array_equal(np.asarray(t)[:,c], x[:,c]): note('others')
        if c not in chs and t.range(c)!=d.range(c): note('others range')
    if t.channels!=d.channels or t.amplification_type()!=d.amplification_type() or t.resolution()!=d.resolution() or t.amplifier_gain()!=d.amplifier_gain(): note('meta')
    # sequential
    t2=d
    for j in rng.permutation(k):
        kw2={kk:vv[j] for kk,vv in kw.items()}
        t2 = FlowCal.transform.to_rfi(t2, spell[j], **kw2)
    if not np.array_equal(np.asarray(t2), np.asarray(t)) or t2.range()!=t.range(): note('seq', spell, kw)
    # by position on plain array requires explicit at
    # to_mef
    kk=int(rng.integers(1,D+1)); scch=[int(c) for c in rng.choice(D,size=kk,replace=False)]
    consts=[(float(rng.uniform(0.5,3)), float(rng.uniform(0.8,1.3))) for _ in scch]
    scl=[(lambda x,c=c,p=p: c*np.abs(x)**p*np.sign(x)) for c,p in consts]
    req=[int(c) for c in rng.choice(scch,size=int(rng.integers(1,kk+1)),replace=False)]
    sp_sc=[('c%d'%c if rng.random()<0.5 else c) for c in scch]; sp_req=[('c%d'%c if rng.random()<0.5 else c) for c in req]
    try: m = FlowCal.transform.to_mef(t, sp_req, scl, sp_sc)
    except Exception as e: note('to_mef EXC '+type(e).__name__, str(e)[:80]); continue
    tx=np.asarray(t)
    for c in range(D):
        if c in req:
            cc,pp = consts[scch.index(c)]
            if not np.allclose(np.asarray(m)[:,c], cc*np.abs(tx[:,c])**pp*np.sign(tx[:,c]), rtol=1e-12): note('mef paired')
        elif not np.array_equal(np.asarray(m)[:,c], tx[:,c]): note('mef others')
    perm=rng.permutation(kk)
    m2 = FlowCal.transform.to_mef(t, sp_req[::-1], [scl[i] for i in perm], [sp_sc[i] for i in perm])
    if not np.array_equal(np.asarray(m2), np.asarray(m)) or m2.range()!=m.range(): note('mef perm')
    unc=[c for c in range(D) if c not in scch]
    if unc:
        try: FlowCal.transform.to_mef(t, req+[unc[0]], scl, sp_sc); note('mef no refuse')
        except ValueError: pass
print(dict(issues)); 
for k,v in ex.items(): print(k, v[:2])
