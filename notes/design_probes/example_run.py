import warnings, time, traceback
warnings.simplefilter('ignore')
import matplotlib; matplotlib.use('Agg')
import FlowCal
t=time.time()
try:
    FlowCal.excel_ui.run('/tmp/scratch/ex/experiment.xlsx', output_path='/tmp/scratch/ex/out.xlsx', verbose=False, plot=True, hist_sheet=True)
    print('done')
except Exception:
    traceback.print_exc()
print(time.time()-t)
