import sys; sys.path.insert(0,'/tmp/scratch')
import warnings, numpy as np, collections, math, pickle, copy
warnings.simplefilter('ignore')
import FlowCal
from fcsw import write_fcs
rng = np.random.default_rng(33)
issues=collections.Counter(); ex=collections.defaultdict(list)
def note(tag,*info):
    issues[tag]+=1
    if len(ex[tag])<3: ex[tag].append(info)
G=FlowCal.gate
def mk(N,D,res=1024):
    mat = rng.integers(0,res,size=(N,D)); 
    if N>2: mat[0,:]=0; mat[1,:]=res-1
    write_fcs('/tmp/scratch/g.fcs', mat.tolist(), widths=(16,)*D, ranges=(res,)*D, names=['c%d'%i for i in range(D)])
    return FlowCal.io.FCSData('/tmp/scratch/g.fcs'), mat
for it in range(1500):
    N=int(rng.integers(0,40)); D=int(rng.integers(2,5)); d,mat = mk(N,D)
    for obj in (d, mat.astype(float)):
        isf = isinstance(obj, FlowCal.io.FCSData)
        # start_end
        s=int(rng.integers(-2,N+2)); e=int(rng.integers(-2,N+2))
        try:
            out = G.start_end(obj, s, e, full_output=True); err=None
        except ValueError as ex_: err=ex_
        s0,e0=max(s,0),max(e,0)
        if s0+e0>N:
            if err is None: note('start_end should raise', N,s,e)
        else:
            if err is not None: note('start_end raised', N,s,e)
            else:
                expm=np.zeros(N,bool); expm[s0:N-e0]=True
                if not np.array_equal(out.mask, expm): note('start_end mask',N,s,e)
                if not np.array_equal(np.asarray(out.gated_data), np.asarray(obj)[expm]): note('start_end gated')
        # high_low
        if N==0: continue
        chs = [int(c) for c in rng.choice(D, size=int(rng.integers(1,D+1)), replace=False)]
        form = rng.choice(['none','list','scalar'])
        cha = None if form=='none' else (chs if form=='list' else chs[0]); used = list(range(D)) if form=='none' else (chs if form=='list' else [chs[0]])
        if isf and form!='none' and rng.random()<0.5: cha = ['c%d'%c for c in chs] if form=='list' else 'c%d'%chs[0]
        hi = None if rng.random()<0.5 else float(rng.integers(0,1100)); lo = None if rng.random()<0.5 else float(rng.integers(-5,500))
        try: out = G.high_low(obj, cha, high=hi, low=lo, full_output=True)
        except Exception as ex_: note('high_low EXC '+type(ex_).__name__, isf, hi, lo); out=None
        if out is not None:
            x=np.asarray(obj)[:,used].astype(float)
            H = hi if hi is not None else (1023.0 if isf else np.inf); L = lo if lo is not None else (0.0 if isf else -np.inf)
            expm=np.all((x<H)&(x>L),axis=1)
            if not np.array_equal(out.mask, expm): note('high_low mask', isf, form, hi, lo)
            if not np.array_equal(np.asarray(out.gated_data), np.asarray(obj)[expm]): note('high_low gated')
            if isf and (out.gated_data.channels!=d.channels or out.gated_data.range()!=d.range()): note('high_low meta')
        # ellipse
        c=(float(rng.uniform(100,900)), float(rng.uniform(100,900))); a=float(rng.uniform(50,600)); b=float(rng.uniform(50,600)); th=float(rng.choice([0, math.pi/2, rng.uniform(-4,4)]))
        lg = bool(rng.integers(0,2))
        if lg: c=(float(rng.uniform(1,3)), float(rng.uniform(1,3))); a=float(rng.uniform(0.2,2)); b=float(rng.uniform(0.2,2))
        ch2 = [int(q) for q in rng.choice(D,size=2,replace=False)]
        out = G.ellipse(obj, ch2 if not isf or rng.random()<0.5 else ['c%d'%q for q in ch2], center=c, a=a, b=b, theta=th, log=lg, full_output=True)
        x = np.asarray(obj)[:,ch2].astype(float)
        for i in range(N):
            px,py = x[i]
            if lg:
                if px<=0 or py<=0:
                    if out.mask[i]: note('ellipse kept nonpositive'); 
                    continue
                px,py=math.log10(px),math.log10(py)
            dx,dy=px-c[0],py-c[1]
            u = dx*math.cos(th)+dy*math.sin(th); v=-dx*math.sin(th)+dy*math.cos(th)
            q=(u/a)**2+(v/b)**2
            if abs(q-1)>1e-9 and bool(out.mask[i])!=(q<=1): note('ellipse mask', q, out.mask[i])
        cn = out.contour[0]
        for px,py in cn:
            if lg: px,py=math.log10(px),math.log10(py)
            dx,dy=px-c[0],py-c[1]; u = dx*math.cos(th)+dy*math.sin(th); v=-dx*math.sin(th)+dy*math.cos(th)
            if abs((u/a)**2+(v/b)**2-1)>1e-9: note('contour off'); break
        if not np.array_equal(np.asarray(out.gated_data), np.asarray(obj)[out.mask]): note('ellipse gated')
print(dict(issues)); 
for k,v in ex.items(): print(k, v[:2])
