import warnings, numpy as np, time, math
warnings.simplefilter('ignore')
import FlowCal, scipy.ndimage
rng = np.random.default_rng(17)
issues=[]; t0=time.time(); tot=0
def binidx(v, e):
    # independent: bin i if e[i] <= v < e[i+1], last bin closed
    i = np.searchsorted(e, v, side='right')-1
    i = np.where(v==e[-1], len(e)-2, i)
    out = (v<e[0])|(v>e[-1])
    return i, out
for it in range(1500):
    n = int(rng.integers(2,200))
    kind = rng.integers(0,3)
    if kind==0: X = rng.integers(0,8,size=(n,2)).astype(float)
    elif kind==1: X = rng.normal(5,2,size=(n,2))
    else: X = np.concatenate([rng.normal(2,.3,size=(n//2,2)), rng.uniform(-2,12,size=(n-n//2,2))])
    nb = [int(rng.integers(2,12)), int(rng.integers(2,12))]
    if rng.random()<0.5:
        bins = [np.linspace(0,8,nb[0]+1), np.linspace(0,8,nb[1]+1)]
    else:
        bins = list(nb)
    f = float(rng.choice([0,1,0.5,rng.random(), rng.integers(0,n+1)/n]))
    sigma = float(rng.choice([0.5,1,3,10]))
    tot+=1
    try:
        out = FlowCal.gate.density2d(X, bins=[b.copy() if hasattr(b,'copy') else b for b in bins], gate_fraction=f, sigma=sigma, full_output=True)
    except Exception as e:
        issues.append(('EXC',type(e).__name__,str(e)[:80], n, bins, f)); continue
    xe,ye = out.bin_edges; mask=out.mask; bm = out.bin_mask
    ix,ox = binidx(X[:,0],xe); iy,oy = binidx(X[:,1],ye); outl = ox|oy
    if np.any(mask & outl): issues.append(('outlier kept',))
    nin = int(np.sum(~outl)); target = math.ceil(f*nin)
    if mask.sum() < target: issues.append(('below target', mask.sum(), target, f, nin))
    H = np.zeros((len(xe)-1,len(ye)-1)); 
    for a,b in zip(ix[~outl],iy[~outl]): H[a,b]+=1
    # atomic
    keptbins = set(zip(ix[mask].tolist(), iy[mask].tolist()))
    for a,b,k,o in zip(ix,iy,mask,outl):
        if not o and ((a,b) in keptbins) != bool(k): issues.append(('non-atomic',)); break
    if not np.array_equal(mask[~outl], bm[ix[~outl],iy[~outl]]): issues.append(('mask != bin_mask',))
    if target>0:
        sH = scipy.ndimage.gaussian_filter(H, sigma=sigma, order=0, mode='constant', cval=0.0, truncate=6.0)
        kept_d = sH[bm]; drop_d = sH[~bm]
        if len(kept_d) and len(drop_d) and kept_d.min() < drop_d.max(): issues.append(('density order', kept_d.min(), drop_d.max()))
        # minimality: drop least dense kept bin (with events?) -> below target
        kb = np.argwhere(bm); dens = np.array([sH[a,b] for a,b in kb]); j = np.argmin(dens)
        least = kb[dens==dens.min()]
        if len(least)==1:
            a,b = least[0]
            if mask.sum() - H[a,b] >= target: issues.append(('not minimal', mask.sum(), H[a,b], target))
    # permutation
    perm = rng.permutation(n)
    out2 = FlowCal.gate.density2d(X[perm], bins=[b.copy() if hasattr(b,'copy') else b for b in bins], gate_fraction=f, sigma=sigma, full_output=True)
    if not np.array_equal(out2.mask, mask[perm]): issues.append(('perm', n, bins, f, sigma))
    # replay
    out3 = FlowCal.gate.density2d(X, bins=[xe,ye], bin_mask=bm, full_output=True)
    if not np.array_equal(out3.mask, mask): issues.append(('replay',))
    # monotone
    f2 = min(1.0, f + rng.random()*0.3)
    out4 = FlowCal.gate.density2d(X, bins=[b.copy() if hasattr(b,'copy') else b for b in bins], gate_fraction=f2, sigma=sigma, full_output=True)
    if np.any(mask & ~out4.mask): issues.append(('monotone', f, f2))
from collections import Counter
print(tot, time.time()-t0, Counter(i[0] for i in issues)); print(issues[:8])
