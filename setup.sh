#!/bin/sh
# setup_cmd: offline; makes sure hypothesis (and, optionally, atheris) are importable by /venv/bin/python.
set -e
cd "$(dirname "$0")"
WH=/opt/veriftools/wheels
if ! /venv/bin/python -c "import hypothesis" 2>/dev/null; then
  mkdir -p .deps
  /venv/bin/pip install --no-index --find-links "$WH" --target .deps hypothesis >/dev/null
fi
if ! PYTHONPATH=.deps /venv/bin/python -c "import atheris" 2>/dev/null; then
  mkdir -p .deps
  /venv/bin/pip install --no-index --find-links "$WH" --target .deps atheris >/dev/null 2>&1 || \
    echo "setup: atheris not installable; coverage-guided supplement disabled" >&2
fi
/venv/bin/python -c "import sys; sys.path[:0]=['.deps']; import hypothesis, FlowCal; print('setup ok: hypothesis', hypothesis.__version__, 'FlowCal', FlowCal.__file__)"
