#!/usr/bin/env python3
"""Regenerate /verif/MANIFEST.json from the table below (keeps it schema-valid at all times)."""
import json
import os
import sys

HERE = os.path.dirname(os.path.dirname(os.path.abspath(__file__)))

# id -> (level, technique, text, note, design_ref)
CHECKS = {
    'C15': ('exploration',
            'Hypothesis generation of workbooks x options and of arbitrary tables; completion + sheet / row / '
            'column / figure inventory oracle; write->read round trip; the shipped example',
            'excel_ui.run on generated workbooks (healthy rows and rows with documented faults; plots on/off, '
            'histogram sheet on/off, explicit/default output path) and on the shipped example must return, write '
            'the documented sheets in order, preserve every input row and column, add the documented result '
            'columns, and write every documented figure for healthy rows and none for failed rows; arbitrary '
            'tables survive write_workbook/read_table (values, column names, identifiers; rows without identifier '
            'dropped; duplicated identifiers refused).',
            'Trusted: pandas/openpyxl for reading the output; floats within +-1e300 compared at 1e-14; strings '
            'outside spreadsheet/pandas special spellings.',
            'DESIGN.md section 4, C15'),
    'C10': ('exploration',
            'Hypothesis generation of experiments (instruments x bead rows x sample rows x units); differential: '
            'Excel workflow result == hand composition of the documented library calls (exact), statistics == '
            'library statistics, histogram identities',
            'For generated experiments the samples returned by process_samples_table and the bead samples / '
            'fitted parameters returned by process_beads_table must have exactly the public fingerprint of the '
            'hand-written composition (to_rfi, units handling incl. letter case and blanks, start_end(250,100), '
            'high_low on scatter+reported channels for integer data, density2d); statistics columns must equal '
            'FlowCal.stats on the gated sample (geometric ones on positive events with a note), event count and '
            'acquisition time those of the gated sample, histogram rows np.histogram over hist_bins edges.',
            'Trusted: the hand composition in pbt/props/c10.py; library primitives are checked by C03-C08, C12.',
            'DESIGN.md section 4, C10'),
    'C11': ('fault_enumeration',
            'enumeration of documented row-fault kinds over tables of 1-2 rows (samples: 30 kinds incl. 11 healthy ones, four of them over unusual files: a listed channel missing, '
            'FCS3.1, ISO-8859-1 text, no voltages; '
            'beads: 9 kinds) + Hypothesis for 3-5 rows; oracle: row-level error for each faulty row, healthy row == its '
            'single-row run (sample and output-table row), order, exact error notes, histogram skips',
            'Every 1-row table, every ordered pair of kinds that contains a healthy row or repeats a kind (the four '
            'unusual-file kinds are paired with the healthy kinds only in the quick tier), and a third '
            '(quick) or all (thorough) of the ordered pairs of two different faulty kinds, all 91 bead tables of <=2 '
            'rows, plus sampled tables of 3..5 rows, must return (no abort), record an ExcelUIException for exactly the '
            'faulty rows, give every healthy cell-sample row the public fingerprint and the output-table row of its '
            "single-row run, keep table order, write 'ERROR: <its own message>' with empty statistics for faulty rows "
            'only, and skip them in the histogram table.',
            'Trusted: the fixture experiment and the list of documented fault kinds (only those are injected).',
            'DESIGN.md section 4, C11'),
    'C02': ('exploration',
            'Hypothesis generation of synthetic bead samples from a known bead law; ground-truth labels, true '
            'curve (10 %), fit on true statistics, metamorphic relations (event order, channel count, seed)',
            'get_transform_fxn is run end to end on generated samples (6..8 populations, 1..3 channels, blank, '
            'piled-up, unknown entries, median/mean, clustering-channel choices): the labels must reproduce the '
            'generating partition (0.2 %), MEF values must be paired with populations in brightness order with '
            'unknown / piled-up ones excluded, fitted parameters must equal the fit to the true statistics, the '
            'curve must be within 10 % of the generating law over the calibrated span, and results must be '
            'reproducible for a fixed seed, under event permutation and for any number of channels calibrated at '
            'once. EM and L-BFGS are involved: a sweep cannot exclude measure-zero pockets. One open finding '
            '(C02-KF1, unequal population sizes).',
            'Trusted: the generator (bead law evaluated in math floats). Imbalanced-size grouping failures are '
            'the known finding; everything else is enforced.',
            'DESIGN.md section 4, C02'),
    'C13': ('exploration',
            'callables enumerated by inspection x recipe table of argument shapes, driven by Hypothesis; '
            'before/after deep fingerprints of every argument; mutate-one-side independence of results; '
            'exhaustive ordered pairs of read-only queries',
            'All 56 public callables found by inspect (functions of io, transform, gate, stats, mef, plot; methods '
            'and properties of FCSData/FCSFile) are exercised through ~400 argument recipes (array / integer / '
            'float sample, 1-D sample, three scales, scalar vs list arguments, caller-owned bins, populations, '
            'parameter dicts, xlim, channel lists, mef_values): no argument may change, sample results share no '
            'event memory and no metadata with their inputs (both directions). All ordered pairs of 43 read-only '
            'queries on one sample must answer independently of history; views/slices share at most the event '
            'buffer. New callables without a recipe are reported as UNCOVERED.',
            'Trusted: public-accessor fingerprints; a callable is exercised only through its recipes.',
            'DESIGN.md section 4, C13'),
    'C17': ('exploration',
            'Hypothesis generation over the presence/well-formed/ill-formed lattice of optional keywords; '
            'differential vs an independent keyword-to-attribute derivation; never-raises oracle',
            'Generated files combine absent / well-formed (every accepted time and date format) / ill-formed '
            'values of $TIMESTEP, TIMETICKS, $BTIM, $ETIM, $DATE, $PnV, $PnG, $PnS, CREATOR, BD$WORDn, CytekPnnG '
            'with time channels (0, 1 in any letter case, 2), versions and $PnE spellings; loading must succeed '
            'and every attribute, accessor and the acquisition duration must equal the independently derived '
            'value.',
            'Trusted: derivation in pbt/props/c17.py. Where the statement leaves the winner open (ill-formed '
            'standard keyword + fallback keyword) both outcomes are accepted.',
            'DESIGN.md section 4, C17'),
    'C20': ('exploration',
            'Hypothesis generation of samples x operation histories (<=3) x duplication methods, interpreted as '
            'op lists; public-fingerprint equality; mutate-one-side independence; FCSFile ==/!= on byte-isolated '
            'file pairs',
            'After a generated history (channel/event slicing, to_rfi, to_mef, gates) a sample is duplicated by '
            'copy(), copy.copy, deepcopy, view() or pickle protocol 0..5; the duplicate must have the same public '
            'fingerprint, be an FCSData, and be independent in text, analysis, ranges and (except views) events. '
            'Two loads of one path are equal with equal hashes; loads of files differing in one event, one '
            'keyword value or one ANALYSIS value (all other bytes identical) are unequal.',
            'Trusted: the public fingerprint (pbt/samples.py) as the notion of equality.',
            'DESIGN.md section 4, C20'),
    'C04': ('exploration',
            'exhaustive enumeration of the index-key grammar on all shapes <=3x3 + Hypothesis chains/assignments '
            'on larger shapes; differential vs ndarray indexing plus a column-list metadata model; model-free '
            'alignment check through origin-encoding cells',
            '1.32 M (rows x cols) keys on the nine shapes N,D<=3 are compared with plain ndarray indexing '
            '(values, refusals) and with the metadata of the selected columns; other forms NumPy accepts must be '
            'refused or aligned; single values are scalars. Hypothesis adds shapes up to 12x8, chains of up to '
            'three keys and assignment through the same keys. Complete for the enumerated grammar on those '
            'shapes only.',
            'Trusted: numpy indexing as reference; cells encode their origin; chains continue from 2-D '
            'intermediates only.',
            'DESIGN.md section 4, C04'),
    'C01': ('exploration',
            'Hypothesis generation of event matrices x FCS layouts encoded by an independent writer; round-trip '
            'oracle (decoded == written, masked by the declared range); refusal of unsupported layouts',
            'Generated files over version x datatype x byte order (both spellings) x per-parameter widths 8..64 '
            '(uniform and mixed) x range kinds x HEADER/TEXT-only offsets x end conventions x random padding x '
            'delimiters, 0..40 events, are loaded through FCSFile and FCSData and compared cell by cell (Python '
            'ints / IEEE bit patterns) with what was written; unsupported layouts must raise.',
            'Trusted: pbt/fcsgen.py. Non-power-of-two ranges restricted to where ceil(log2 R) is exact.',
            'DESIGN.md section 4, C01'),
    'C16': ('fault_enumeration',
            'Hypothesis generation of small files; per file exhaustive truncation at every byte plus enumerated '
            'single-field corruptions; oracle: outcome in {exception, identical to intact}',
            'For each generated file every truncation offset (incl. the empty file) and ~40-60 single-field '
            'corruptions ($TOT, $PAR, $PnB, HEADER and TEXT offsets to v-1, v+1, v/2, 2v, 0, 99999) are loaded; '
            'anything other than an exception or exactly the intact events and keywords is a violation. '
            'Corruptions indistinguishable from the tolerated one-past convention are skipped and counted. One '
            'open finding (C16-KF1, HEADER text_end beyond the true end).',
            'Trusted: pbt/fcsgen.py; ambiguity rule for the one-past tolerance; any exception type counts as '
            'refusal.',
            'DESIGN.md section 4, C16'),
    'C03': ('exploration',
            'Hypothesis generation of samples/arrays x amplifier settings x channel requests x overrides; '
            'reference amplifier law; metamorphic equivalence of batch / sequential / permuted / by-name / '
            'by-position calls (bitwise)',
            'Each selected channel is compared with a1*10^(a0*x/r) or x/g evaluated in Python floats (rel. 1e-12) '
            'under the documented file-value/override rules (incl. a1=0 read as 1); unselected channels '
            'bit-identical; metadata unchanged; one call == sequential single-channel calls in any order == '
            'permuted list == by name == by position, bitwise incl. ranges; argument untouched; inconsistent '
            'lengths refused.',
            'Trusted: the reference law in pbt/props/c03.py; overrides are kept in the finite-result domain.',
            'DESIGN.md section 4, C03'),
    'C06': ('exploration',
            'Hypothesis generation of curve lists x pairings x requests; reference application of the paired '
            'curve; permutation / spelling metamorphic relations (bitwise); refusals; stub-driven '
            'get_transform_fxn callable',
            'Requested channels are compared with their own curve applied by the oracle (rel. 1e-12), others '
            'bit-identical, metadata unchanged; permuting the (curve, channel) pairs, switching name/position '
            'spellings or reversing the request leave the result bitwise identical; uncovered channels and '
            'length mismatches raise; the callable returned by get_transform_fxn (stub clustering/fitting with '
            'known curves) equals the direct call.',
            'Trusted: oracle curve evaluation in Python floats.',
            'DESIGN.md section 4, C06'),
    'C07': ('exploration',
            'Hypothesis float-parameter sweep over integer samples with events at and next to both limits; '
            'bitwise oracle: transformed limit == transformed saturated event; gate-before == gate-after',
            'For full-mantissa amplifier and standard-curve parameters, every converted channel limit must be '
            'bitwise the value an event at the original limit now has (to_rfi, to_rfi+to_mef, '
            'transform.transform), unconverted channels keep their limits, and the default high_low gate keeps '
            'the same events before and after conversion. Decided for this numpy build/CPU (recorded in the '
            'evidence).',
            'Trusted: high_low default thresholds are the ranges (C08). Bitwise float agreement is '
            'machine-dependent.',
            'DESIGN.md section 4, C07'),
    'C05': ('exploration',
            'Hypothesis generation of event sets x bin specifications x fractions x smoothing; invariants '
            'recomputed independently from the returned artefacts; metamorphic relations (permutation, monotone '
            'in f, replay)',
            'For generated event sets (ties, clusters, out-of-grid and on-edge events) and bin specifications '
            '(counts, explicit edges, mixtures, sample-derived linear/log/logicle bins) the returned mask, bin '
            'mask and edges are checked for bin atomicity, in-grid, lower bound ceil(f*n), minimality, density '
            'order against an independently smoothed histogram, f=0/f=1, permutation invariance, monotonicity in '
            'f, exact replay, gated==data[mask], and refusals.',
            'Trusted: scipy.ndimage.gaussian_filter as the documented smoothing; searchsorted bin assignment.',
            'DESIGN.md section 4, C05'),
    'C08': ('exploration',
            'Hypothesis generation of containers with cells on/next to thresholds x gate parameters; '
            'independently written reference predicates; gated == data[mask]; short == full form',
            'start_end, high_low and ellipse on generated arrays and loaded samples (0..60 events, ints and '
            'floats, values on thresholds and their nextafter neighbours, every channel form, defaulted and '
            'explicit thresholds, exactly representable ellipse boundary points, log flag) against reference '
            'predicates on Python numbers; contour on-ellipse/closed/covering; refusals.',
            'Trusted: reference predicates in pbt/props/c08.py; ellipse membership only asserted for |q-1|>1e-9 '
            'or exactly representable boundary points.',
            'DESIGN.md section 4, C08'),
    'C12': ('exploration',
            'Hypothesis generation of event matrices x dtypes x containers x channel forms; differential vs '
            'pure-Python textbook definitions; container/channel-form agreement; identities',
            'All ten statistics on generated matrices (1..200 events, uint8/16/32 either byte order, float32/64, '
            'ties, constant columns, single events) in raw and RFI-converted samples and the equivalent plain '
            'arrays, for every channel spelling, against pure-Python definitions with a tolerance that follows '
            'the floating type NumPy computes in. One open finding (C12-KF1: half-precision logs for 8-bit data).',
            'Trusted: reference definitions in pbt/props/c12.py. Geometric statistics of 8-bit data are only '
            'bounded (25%) because of C12-KF1.',
            'DESIGN.md section 4, C12'),
    'C18': ('exploration',
            'lattice enumeration + Hypothesis generation against the published equation evaluated independently, '
            'monotonicity and inverse-accuracy invariants',
            'Every triple of a T x M x W lattice (9^3 quick, 25^3 thorough) and thousands of random triples are '
            'checked on a 2001-point display grid against the biexponential computed in math floats with p from '
            'bisection, for strict monotonicity, x(W)=0, inverse error <= 1e-4*M and inverse monotonicity; '
            'data-derived T, M, W against the documented rules; refusals; the matplotlib axis. Sampling of a '
            'continuous parameter box: no absence claim.',
            'Trusted: the oracle equation/bisection in pbt/props/c18.py; tolerance 2e-6 of the transform scale '
            "because the library solves p with scipy's default tolerance.",
            'DESIGN.md section 4, C18'),
    'C09': ('exploration',
            'Hypothesis generation of bead laws with exact synthetic RFI values; recovery oracle (5%) and '
            'structural identities',
            'Generated (m, b, autofluorescence, ladder) tuples over the stated box with exactly computed RFI are '
            'fitted and compared with the generating law over the bead span; odd/zero/increasing/non-negative '
            'autofluorescence/model identities for every fit incl. arbitrary pairs; refusals. A numerical '
            'optimiser is involved: a sweep cannot exclude a measure-zero pocket.',
            'Trusted: math-float evaluation of the bead model in the oracle.',
            'DESIGN.md section 4, C09'),
    'C19': ('exploration',
            'Hypothesis generation of samples x channel forms x bin counts x scales; invariants recomputed '
            'independently (count, monotone, cover, positivity, logicle image, bin-centre identity, per-channel '
            'consistency, purity)',
            'Bin edges for generated samples (resolutions 2^8..2^18 and arbitrary, raw/RFI/MEF ranges, all '
            'channel forms, n in {1,2,default,arbitrary,list}, three scales and per-channel lists, logicle '
            'overrides) are checked against independently recomputed invariants.',
            'Trusted: sample.range() as the definition of the channel range; oracle biexponential.',
            'DESIGN.md section 4, C19'),
    'C14': ('exploration',
            'exhaustive enumeration of short strings + Hypothesis generation, differential vs an independent '
            'reference tokenizer, encode/decode round-trip',
            'Every string over {delimiter,a,b} up to length 11 (quick) / 14 (thorough) in three parser modes is '
            'compared with an independent left-to-right tokenizer (complete for that bound); beyond the bound, '
            'generated strings, escaped dictionaries with every printable delimiter and files with '
            'TEXT/supplemental TEXT/ANALYSIS are round-tripped. No absence claim beyond the bound.',
            'Trusted: the reference tokenizer and the independent FCS writer in /verif/pbt.',
            'DESIGN.md section 4, C14'),
}

FUZZ = dict((p, 'the thorough tier') for p in ('C03', 'C04', 'C05', 'C06', 'C07', 'C08', 'C09', 'C12', 'C13', 'C18',
                                              'C19', 'C20'))
FUZZ.update(C01='both tiers', C14='both tiers', C17='both tiers')

PENDING_REASON = 'check not built yet (work in progress; see DESIGN.md section 8 for the order of work)'

ALL = ['C%02d' % i for i in range(1, 21)]


def main():
    checks = []
    for pid in ALL:
        if pid not in CHECKS:
            continue
        level, technique, text, note, ref = CHECKS[pid]
        if pid in FUZZ:
            technique += ('; coverage-guided fuzzing (atheris/libFuzzer driving the same Hypothesis strategy and '
                          'oracle through fuzz_one_input) in %s' % FUZZ[pid])
        checks.append(dict(
            property_id=pid,
            quick_cmd='./check %s --tier quick' % pid,
            thorough_cmd='./check %s --tier thorough' % pid,
            evidence_file='evidence/%s.json' % pid,
            replay_cmd_template='./check %s --replay {path}' % pid,
            engine='pbt',
            level_claimed=dict(category=level, text=text, design_ref=ref),
            level_note=note,
            technique=technique,
        ))
    m = dict(
        version=1,
        setup_cmd='./setup.sh',
        hooks=dict(guard='FLOWCAL_VERIF',
                   enable='no source hooks are needed: every property is observable through the public API; '
                          'checks import FlowCal from /repo (or $VERIF_REPO) as it is',
                   baseline_off_cmd='cd /repo && /venv/bin/python -m pytest -ra -q -p no:cacheprovider '
                                    '--timeout=900 --continue-on-collection-errors',
                   source_commits=[],
                   add_only=True),
        engines=[dict(name='pbt', path='pbt/runner.py', serves_properties=sorted(CHECKS),
                      kind_free_text='Hypothesis-driven generated search (two-pass collect-then-shrink, 16 '
                                     'seed-sharded processes) plus exhaustive enumeration of small finite '
                                     'sub-domains; cases are JSON and double as replay files')],
        checks=checks,
        notes='Exit codes: 0 held, 1 VIOLATION line(s), 2 harness error. VERIF_SEED selects the shard seeds. '
              'Known findings: known_findings.json; regression cases of fixed defects: regressions/<ID>/.',
        not_applicable=[dict(property_id=p, reason=PENDING_REASON) for p in ALL if p not in CHECKS],
    )
    with open(os.path.join(HERE, 'MANIFEST.json'), 'w') as f:
        json.dump(m, f, indent=1)
        f.write('\n')
    try:
        import jsonschema
        jsonschema.validate(m, json.load(open('/root/.vp/MANIFEST.schema.json')))
        print('MANIFEST.json valid; %d checks, %d pending' % (len(checks), len(m['not_applicable'])))
    except ImportError:
        print('MANIFEST.json written (jsonschema not available for validation)')


if __name__ == '__main__':
    main()
