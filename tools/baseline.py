#!/usr/bin/env python3
"""Run the pinned test suite and report any BASELINE stable_pass test that does not pass."""
import json, subprocess, sys, tempfile, os, xml.etree.ElementTree as ET
b = json.load(open('/root/.vp/BASELINE.json'))
fd, x = tempfile.mkstemp(suffix='.xml'); os.close(fd)
cmd = b['cmd'].replace('<file>', x)
p = subprocess.run(cmd, shell=True, stdout=subprocess.PIPE, stderr=subprocess.STDOUT)
passed = set()
for tc in ET.parse(x).getroot().iter('testcase'):
    ok = not any(c.tag in ('failure', 'error', 'skipped') for c in tc)
    if ok: passed.add('%s::%s' % (tc.get('classname'), tc.get('name')))
os.unlink(x)
missing = [t for t in b['stable_pass'] if t not in passed]
print('passed=%d stable_pass=%d missing=%d newly_passing=%d' % (len(passed), len(b['stable_pass']), len(missing), len(passed - set(b['stable_pass']))))
for m in missing[:20]: print('  MISSING', m)
sys.exit(1 if missing else 0)
