#!/usr/bin/env python3
"""Print the DESIGN.md table rows for one round of kept seeded changes:  tools/seeded_table.py r5"""
import glob, json, os, re, sys
HERE = os.path.dirname(os.path.dirname(os.path.abspath(__file__)))
rnd = sys.argv[1]
rows = []
for d in sorted(glob.glob(os.path.join(HERE, 'seeded', 'C*-%s-change*' % rnd))):
    m = json.load(open(os.path.join(d, 'meta.json')))
    summ = re.sub(r'\s+', ' ', m.get('summary', '')).replace('|', '/')[:170]
    det, note = m['detected'], m.get('note', '')
    rows.append('| %s/%s-%s | %s | %s%s%s |' % (m['property'], rnd, d[-1], summ,
                                                det.replace('yes, after strengthening ', '').replace('yes ', ''),
                                                ' †' if 'after' in det else '', (' — ' + note) if note else ''))
print('\n'.join(rows))
sys.stderr.write('%d rows, %d initially missed\n' % (len(rows), sum('†' in r for r in rows)))
