#!/usr/bin/env python3
"""Sensitivity helper: apply one string-level mutant to a scratch copy of /repo and run checks on it.

  tools/mut.py <ID[,ID..]> <file under FlowCal/> <old> <new> [--tests] [--tier quick] [--count N]

The old string must occur exactly once (or --count N times).  The scratch copy lives under $TMPDIR and is
removed afterwards.  With --tests the repository's own suite is run against the mutant first (a realistic
mutant keeps the 400 baseline tests green).
"""
import argparse
import json
import os
import shutil
import subprocess
import sys
import tempfile

HERE = os.path.dirname(os.path.dirname(os.path.abspath(__file__)))


def main():
    ap = argparse.ArgumentParser()
    ap.add_argument('ids')
    ap.add_argument('file')
    ap.add_argument('old')
    ap.add_argument('new')
    ap.add_argument('--tests', action='store_true')
    ap.add_argument('--tier', default='quick')
    ap.add_argument('--count', type=int, default=1)
    ap.add_argument('--seed', default='1')
    ap.add_argument('--keep', default=None, help='copy replays/<ID> here before cleaning')
    a = ap.parse_args()
    tmp = tempfile.mkdtemp(prefix='mut-')
    try:
        dst = os.path.join(tmp, 'repo')
        shutil.copytree('/repo', dst, ignore=shutil.ignore_patterns('.git', '__pycache__', 'doc', '*.egg-info'))
        p = os.path.join(dst, 'FlowCal', a.file)
        s = open(p).read()
        old = a.old.encode().decode('unicode_escape')
        new = a.new.encode().decode('unicode_escape')
        if s.count(old) != a.count:
            print('MUTANT-ERROR: %r occurs %d times in %s' % (old, s.count(old), a.file))
            return 3
        open(p, 'w').write(s.replace(old, new))
        if a.tests:
            b = json.load(open('/root/.vp/BASELINE.json'))
            x = os.path.join(tmp, 'j.xml')
            r = subprocess.run(['/venv/bin/python', '-m', 'pytest', '-q', '-p', 'no:cacheprovider', '--timeout=900',
                                '--junitxml=' + x], cwd=dst, stdout=subprocess.PIPE, stderr=subprocess.STDOUT,
                               env=dict(os.environ, PYTHONPATH=dst))
            import xml.etree.ElementTree as ET
            passed = set()
            for tc in ET.parse(x).getroot().iter('testcase'):
                if not any(c.tag in ('failure', 'error', 'skipped') for c in tc):
                    passed.add('%s::%s' % (tc.get('classname'), tc.get('name')))
            missing = [t for t in b['stable_pass'] if t not in passed]
            print('tests: %d passed, baseline tests broken by mutant: %d %s' % (len(passed), len(missing), missing[:3]))
        rc_all = []
        for pid in a.ids.split(','):
            r = subprocess.run([os.path.join(HERE, 'check'), pid, '--tier', a.tier],
                               env=dict(os.environ, VERIF_REPO=dst, VERIF_SEED=a.seed, VERIF_EVIDENCE_DIR=os.path.join(tmp, 'evidence'),
                                        VERIF_REPLAY_DIR=os.path.join(tmp, 'replays')),
                               stdout=subprocess.PIPE, stderr=subprocess.STDOUT, cwd=HERE)
            out = r.stdout.decode(errors='replace')
            lines = [l for l in out.splitlines() if l.startswith(('FAIL', 'VIOLATION', 'HARNESS', 'REGRESSION', pid))]
            print('%s exit=%d' % (pid, r.returncode))
            for l in lines[:8]:
                print('   ', l[:260])
            rc_all.append(r.returncode)
        return 0 if all(rc == 1 for rc in rc_all) else 1
    finally:
        if a.keep and os.path.isdir(os.path.join(tmp, 'replays')):
            shutil.copytree(os.path.join(tmp, 'replays'), a.keep, dirs_exist_ok=True)
        shutil.rmtree(tmp, ignore_errors=True)


if __name__ == '__main__':
    sys.exit(main())
