#!/usr/bin/env python3
"""Run every registered check (quick by default) and print a summary table; validates evidence files."""
import json, os, subprocess, sys, time
HERE = os.path.dirname(os.path.dirname(os.path.abspath(__file__)))
m = json.load(open(os.path.join(HERE, 'MANIFEST.json')))
tier = sys.argv[1] if len(sys.argv) > 1 else 'quick'
seed = sys.argv[2] if len(sys.argv) > 2 else '1'
try:
    import jsonschema
    schema = json.load(open('/root/.vp/EVIDENCE.schema.json'))
except Exception:
    jsonschema = None
bad = 0
for c in m['checks']:
    ev = os.path.join(HERE, c['evidence_file'])
    if os.path.exists(ev):
        os.unlink(ev)
    t = time.time()
    cmd = c['quick_cmd'] if tier == 'quick' else c['thorough_cmd']
    r = subprocess.run(cmd, shell=True, cwd=HERE, stdout=subprocess.PIPE, stderr=subprocess.STDOUT, env=dict(os.environ, VERIF_SEED=seed))
    out = r.stdout.decode(errors='replace')
    ok = 'no-evidence'
    cov = {}
    if os.path.exists(ev):
        e = json.load(open(ev))
        cov = e['coverage']
        ok = 'valid'
        if jsonschema:
            try:
                jsonschema.validate(e, schema)
            except Exception as ex:
                ok = 'INVALID ' + str(ex)[:80]
    kf = sum(1 for l in out.splitlines() if l.startswith('KNOWN-FINDING'))
    print('%s exit=%d wall=%5.1fs eval=%-8s nontrivial=%-8s known=%d evidence=%s' % (
        c['property_id'], r.returncode, time.time() - t, cov.get('evaluations'), cov.get('distinct_nontrivial'), kf, ok))
    if r.returncode != 0 or ok != 'valid':
        bad += 1
        print('\n'.join(l[:300] for l in out.splitlines() if not l.startswith('KNOWN'))[-1500:])
sys.exit(1 if bad else 0)
