#!/usr/bin/env python3
"""Copy a confirmed seeded change from the sub-agent scratch area into /verif/seeded/<ID>-<name>/ with meta.json."""
import json, os, shutil, sys
src, pid, name, detected, note = sys.argv[1:6]
dst = os.path.join('/verif/seeded', '%s-%s' % (pid, name))
os.makedirs(dst, exist_ok=True)
for f in ('patch.diff', 'demo.py'):
    shutil.copy(os.path.join(src, f), os.path.join(dst, f))
m = json.load(open(os.path.join(src, 'meta.json')))
m.update(property=pid,
         confirmed=dict(how='tools/seeded.py verify: demo.py exits 0 on a clean copy of /repo and non-zero on the patched copy; '
                            'the 400 baseline tests still pass with the patch (409 passed in total)', result='CONFIRMED'),
         ran='tools/seeded.py run %s seeded/%s-%s [--in-repo]  (patch applied to a scratch copy of /repo pointed at by VERIF_REPO, or with --in-repo: git -C /repo apply; ./check %s --tier quick; git -C /repo checkout -- .)' % (pid, pid, name, pid),
         detected=detected, note=note)
json.dump(m, open(os.path.join(dst, 'meta.json'), 'w'), indent=1)
print(dst)
