#!/usr/bin/env python3
"""Confirm a seeded change and run checks against it.

  tools/seeded.py verify <dir with patch.diff, demo.py>     -> demo passes clean / fails patched; baseline tests
  tools/seeded.py run <ID[,ID]> <dir> [--tier quick]        -> apply to /repo, run ./check, undo

`verify` works in a throw-away copy of /repo's working tree (never in /repo); `run` does the same and points the
checks at the copy with VERIF_REPO, or, with --in-repo, applies the patch to /repo itself (git apply) and always
undoes it (git checkout -- .) afterwards.
"""
import json
import os
import shutil
import subprocess
import sys
import tempfile
import xml.etree.ElementTree as ET

HERE = os.path.dirname(os.path.dirname(os.path.abspath(__file__)))


def sh(cmd, **kw):
    return subprocess.run(cmd, stdout=subprocess.PIPE, stderr=subprocess.STDOUT, **kw)


def verify(d):
    tmp = tempfile.mkdtemp(prefix='seedv-')
    try:
        clean = os.path.join(tmp, 'clean')
        shutil.copytree('/repo', clean, ignore=shutil.ignore_patterns('.git', '__pycache__', 'doc', '*.egg-info'))
        pat = os.path.join(tmp, 'patched')
        shutil.copytree(clean, pat)
        r = sh(['patch', '-p1', '-i', os.path.abspath(os.path.join(d, 'patch.diff'))], cwd=pat)
        if r.returncode:
            print('PATCH FAILED', r.stdout.decode()[-500:])
            return 2
        env = dict(os.environ, MPLBACKEND='Agg')
        demo = os.path.abspath(os.path.join(d, 'demo.py'))
        rc = sh(['/venv/bin/python', demo], cwd=tmp, env=dict(env, PYTHONPATH=clean))
        rp = sh(['/venv/bin/python', demo], cwd=tmp, env=dict(env, PYTHONPATH=pat))
        print('demo clean exit=%d patched exit=%d' % (rc.returncode, rp.returncode))
        if rc.returncode != 0:
            print(rc.stdout.decode()[-800:])
        print('   patched says:', rp.stdout.decode().strip().splitlines()[-1:] )
        b = json.load(open('/root/.vp/BASELINE.json'))
        x = os.path.join(tmp, 'j.xml')
        sh(['/venv/bin/python', '-m', 'pytest', '-q', '-p', 'no:cacheprovider', '--timeout=900', '--junitxml=' + x],
           cwd=pat, env=dict(env, PYTHONPATH=pat))
        passed = set()
        for tc in ET.parse(x).getroot().iter('testcase'):
            if not any(c.tag in ('failure', 'error', 'skipped') for c in tc):
                passed.add('%s::%s' % (tc.get('classname'), tc.get('name')))
        missing = [t for t in b['stable_pass'] if t not in passed]
        print('tests with patch: %d passed; baseline tests broken: %d %s' % (len(passed), len(missing), missing[:3]))
        ok = rc.returncode == 0 and rp.returncode != 0 and not missing
        print('CONFIRMED' if ok else 'NOT CONFIRMED')
        return 0 if ok else 1
    finally:
        shutil.rmtree(tmp, ignore_errors=True)


def run(ids, d, tier='quick', in_repo=False):
    """Default: apply the patch to a throw-away copy of /repo's working tree and point the checks at it with
    VERIF_REPO (safe while other runs use /repo).  --in-repo: git apply to /repo itself, run, git checkout -- ."""
    tmp = None
    env = dict(os.environ)
    if in_repo:
        st = sh(['git', '-C', '/repo', 'status', '--porcelain', '--untracked-files=no']).stdout.decode().strip()
        if st:
            print('refusing: /repo has local changes:\n' + st)
            return 2
        r = sh(['git', '-C', '/repo', 'apply', os.path.abspath(os.path.join(d, 'patch.diff'))])
    else:
        tmp = tempfile.mkdtemp(prefix='seedr-')
        dst = os.path.join(tmp, 'repo')
        shutil.copytree('/repo', dst, ignore=shutil.ignore_patterns('.git', '__pycache__', 'doc', '*.egg-info'))
        r = sh(['patch', '-p1', '-i', os.path.abspath(os.path.join(d, 'patch.diff'))], cwd=dst)
        env['VERIF_REPO'] = dst
    if r.returncode:
        print('applying the patch failed', r.stdout.decode()[-500:])
        if tmp:
            shutil.rmtree(tmp, ignore_errors=True)
        return 2
    rcs = []
    rep = tempfile.mkdtemp(prefix='seedrep-')
    env['VERIF_EVIDENCE_DIR'] = os.path.join(rep, 'evidence')
    env['VERIF_REPLAY_DIR'] = os.path.join(rep, 'replays')
    try:
        for pid in ids.split(','):
            r = sh([os.path.join(HERE, 'check'), pid, '--tier', tier], cwd=HERE, env=env)
            out = r.stdout.decode(errors='replace')
            print('%s exit=%d' % (pid, r.returncode))
            for l in [l for l in out.splitlines() if l.startswith(('FAIL', 'VIOLATION', 'HARNESS', 'REGRESSION', pid))][:8]:
                print('   ', l[:300])
            rcs.append(r.returncode)
    finally:
        if in_repo:
            sh(['git', '-C', '/repo', 'checkout', '--', '.'])
        if tmp:
            shutil.rmtree(tmp, ignore_errors=True)
        shutil.rmtree(rep, ignore_errors=True)
    return 0 if all(rc == 1 for rc in rcs) else 1


if __name__ == '__main__':
    if sys.argv[1] == 'verify':
        sys.exit(verify(sys.argv[2]))
    tier = 'quick'
    if '--tier' in sys.argv:
        tier = sys.argv[sys.argv.index('--tier') + 1]
    sys.exit(run(sys.argv[2], sys.argv[3], tier, in_repo='--in-repo' in sys.argv))
