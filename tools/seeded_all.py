#!/usr/bin/env python3
"""Run every kept seeded change against its property's quick check and write seeded/RESULTS.md.

  tools/seeded_all.py [--jobs 3] [pattern]

Each change is applied to its own scratch copy of /repo (tools/seeded.py run), so this can run while /repo is in use.
"""
import concurrent.futures as cf
import glob, json, os, re, subprocess, sys, time
HERE = os.path.dirname(os.path.dirname(os.path.abspath(__file__)))
jobs = 3
args = sys.argv[1:]
if '--jobs' in args:
    jobs = int(args[args.index('--jobs') + 1]); del args[args.index('--jobs'):args.index('--jobs') + 2]
pat = args[0] if args else ''
dirs = sorted(d for d in glob.glob(os.path.join(HERE, 'seeded', '*')) if os.path.isdir(d) and pat in d)

def one(d):
    m = json.load(open(os.path.join(d, 'meta.json')))
    t = time.time()
    r = subprocess.run([sys.executable, os.path.join(HERE, 'tools', 'seeded.py'), 'run', m['property'], d],
                       stdout=subprocess.PIPE, stderr=subprocess.STDOUT, env=dict(os.environ, VERIF_PROCS='6'))
    out = r.stdout.decode(errors='replace')
    ex = re.search(r'exit=(\d+)', out)
    tags = sorted(set(re.findall(r'FAIL tag=(\S+)', out)) | ({'regression'} if 'REGRESSION' in out else set()))
    return os.path.basename(d), m['property'], int(ex.group(1)) if ex else -1, tags, time.time() - t

rows = []
with cf.ThreadPoolExecutor(jobs) as ex:
    for res in ex.map(one, dirs):
        rows.append(res)
        print('%-16s %s exit=%d %s (%.0fs)' % (res[0], res[1], res[2], ','.join(res[3]), res[4]), flush=True)
missed = [r for r in rows if r[2] != 1]
# RESULTS.md holds one row per kept change; a run restricted by a pattern replaces only the rows it produced
res_path = os.path.join(HERE, 'seeded', 'RESULTS.md')
table = {}
if pat and os.path.exists(res_path):
    for line in open(res_path):
        m = re.match(r'\| (\S+) \| (C\d\d) \| (-?\d+) \| (.*) \|$', line.rstrip('\n'))
        if m:
            table[m.group(1)] = (m.group(1), m.group(2), int(m.group(3)), [t for t in m.group(4).split(', ') if t])
for r in rows:
    table[r[0]] = r[:4]
kept = set(os.path.basename(d) for d in glob.glob(os.path.join(HERE, 'seeded', '*')) if os.path.isdir(d))
allrows = [table[k] for k in sorted(table) if k in kept]
with open(res_path, 'w') as f:
    f.write('# Seeded changes vs quick checks\n\nProduced by `tools/seeded_all.py`; %d changes, %d detected (exit 1 with a VIOLATION line).\n\n' % (
        len(allrows), sum(1 for r in allrows if r[2] == 1)))
    f.write('| change | property | exit | failing sub-claims |\n|---|---|---|---|\n')
    for r in allrows:
        f.write('| %s | %s | %d | %s |\n' % (r[0], r[1], r[2], ', '.join(r[3])))
print('detected %d of %d' % (len(rows) - len(missed), len(rows)))
sys.exit(1 if missed else 0)
