#!/usr/bin/env python3
"""Write the prompt given to a fresh sub-agent that seeds breaking changes for one property.

  tools/mkprompt.py <ID> <round> -> prints the prompt; worktree /tmp/wt<round>/<ID>, output /tmp/seeded<round>/<ID>

The sub-agent gets the property text, its own scratch worktree, and one-line summaries of the changes earlier
sub-agents already produced for that property (so that it picks another mechanism); nothing else from /verif.
"""
import glob, json, os, re, sys
HERE = os.path.dirname(os.path.dirname(os.path.abspath(__file__)))
pid, rnd = sys.argv[1], sys.argv[2]
p = [json.loads(l) for l in open(os.path.join(HERE, 'properties.jsonl')) if json.loads(l)['id'] == pid][0]
wt, out = '/tmp/wt%s/%s' % (rnd, pid), '/tmp/seeded%s/%s' % (rnd, pid)
prev = []
for d in sorted(glob.glob(os.path.join(HERE, 'seeded', pid + '-*'))):
    m = json.load(open(os.path.join(d, 'meta.json')))
    prev.append('  - ' + re.sub(r'\s+', ' ', m.get('summary', ''))[:330])
print('''You are helping evaluate a verification harness by writing *seeded defects*. You work ONLY inside the git worktree {wt} (a checkout of the Python library taborlab/FlowCal: FCS flow-cytometry file reader, transforms, gates, statistics, bead calibration, Excel UI). Do not read or write anything under /verif or /repo, and do not commit anything.

The property your change must break (read it carefully):

Property {pid}: {title}.
Statement: {statement}
Quantified over: {q}
(Code: {files})

Task: produce TWO different, independent changes (different code sites / root causes) to the FlowCal source in the worktree, each of which
  (a) still imports/compiles,
  (b) keeps the existing test-suite result unchanged: run `cd {wt} && /venv/bin/python -m pytest -q -p no:cacheprovider 2>&1 | tail -15` before and after (because the cwd is first on sys.path, this imports the worktree's FlowCal). On the unmodified tree exactly these 11 fail and the other 409 pass: test_excel_ui::TestReadTable::test_read_table_xls, 5 tests of test_io::TestFCSAttributesChannelLabels, 5 tests of test_stats::TestMode. The same set (and no other test) must fail with your change.
  (c) breaks the property above for some inputs (a clause of the statement must become false for an input inside the quantified domain), and
  (d) is HARD TO REACH: it must need something specific to manifest -- a multi-step sequence of operations on the same object, a particular combination of two or three parameter values or options, a rare but legal input shape/size/dtype, a boundary value, or two cooperating code sites that each look fine alone. Prefer bugs whose trigger region is a small fraction (well under 5 %) of plausible inputs, but which a real user could hit. Subtle, realistic bugs a developer could plausibly introduce during a refactor, a performance optimisation or a compatibility fix are ideal; avoid artificial magic constants.

Pick the clauses of the statement and the parts of the quantified domain that look LEAST likely to be exercised by a routine randomized test, and code sites other than the most obvious one (helpers the anchored code calls, other modules that feed it, constructors, __array_finalize__/__getitem__/__reduce__, default-argument handling, error paths, plotting/Excel glue).

These ideas were already used for this property in earlier rounds -- do NOT repeat them or close variants; pick different code sites or mechanisms:
{prev}

Never use `git stash` (it is shared between worktrees used by other people); to return to the clean tree use `git -C {wt} checkout -- .` and re-apply your saved patch with `git apply`.

For each change i in {{1,2}} write into {out}/change<i>/ :
  - patch.diff  : output of `git -C {wt} diff` for that change alone (apply one change at a time; `git -C {wt} checkout -- .` between them),
  - demo.py     : a small standalone program, run as `PYTHONPATH=<tree> /venv/bin/python demo.py`, that exits 0 on the unmodified tree (PYTHONPATH={wt} after checkout) and exits non-zero (assertion failure) with the change applied; it must demonstrate a genuine violation of the property text, using only the public behaviour described there (it may write its own small FCS files or use the files under {wt}/test and {wt}/examples),
  - meta.json   : {{"property":"{pid}","summary":"...","what_it_needs_to_manifest":"...","files_touched":[...],"tests_run":"..."}}.
Verify (a)-(d) yourself for both changes, including running demo.py with and without the change, and the test-suite with the change. Leave the worktree clean (`git -C {wt} checkout -- .`) when done. Use /venv/bin/python (it has numpy, scipy, pandas, matplotlib (use the Agg backend), sklearn). Write temporary files only under {out}/. Final answer: a 5-line summary of the two changes and the verification you ran.'''.format(
    wt=wt, out=out, pid=pid, title=p['title'], statement=p['statement'], q=p['quantifier']['text'],
    files=', '.join(p['anchors']['files']), prev='\n'.join(prev)))
